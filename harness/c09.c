/* C09 - equality is a structural equivalence; deep copy is equal and disjoint.
 * All ordered pairs of a tree family (with member permutations), closure of the
 * computed relation; deep copy of every member + per-node mutation. */
#include "mc.h"
#include "json.h"
#include <errno.h>
#include <math.h>
#include <stdlib.h>
#include <string.h>

/* ---- leaves: builder + value model ---- */
enum leafkind
{
	LF_NULL,
	LF_TRUE,
	LF_FALSE,
	LF_I64,
	LF_U64,
	LF_DBL,
	LF_STR,
	LF_STR_SEP /* string whose bytes live in separately allocated storage (after set_string) */
};
struct leaf
{
	enum leafkind k;
	int64_t i;
	uint64_t u;
	double d;
	const char *s;
	int slen;
};
static const char s40[] = "0123456789012345678901234567890123456789";
static const struct leaf LEAVES[] = {
    {LF_NULL, 0, 0, 0, 0, 0},
    {LF_TRUE, 0, 0, 0, 0, 0},
    {LF_FALSE, 0, 0, 0, 0, 0},
    {LF_I64, 5, 0, 0, 0, 0},
    {LF_U64, 0, 5, 0, 0, 0},
    {LF_DBL, 0, 0, 5.0, 0, 0},
    {LF_STR, 0, 0, 0, "a", 1},
    {LF_STR, 0, 0, 0, "a\0b", 3},
    {LF_STR, 0, 0, 0, "a\0c", 3},
    {LF_DBL, 0, 0, NAN, 0, 0},
    {LF_I64, 0, 0, 0, 0, 0},
    {LF_STR, 0, 0, 0, "", 0},
    /* --- the first 12 are the sub-family used as children --- */
    {LF_I64, -1, 0, 0, 0, 0},
    {LF_I64, INT64_MAX, 0, 0, 0, 0},
    {LF_U64, 0, (uint64_t)INT64_MAX, 0, 0, 0},
    {LF_U64, 0, (uint64_t)1 << 63, 0, 0, 0},
    {LF_U64, 0, UINT64_MAX, 0, 0, 0},
    {LF_U64, 0, 0, 0, 0, 0},
    {LF_DBL, 0, 0, 0.0, 0, 0},
    {LF_DBL, 0, 0, -0.0, 0, 0},
    {LF_DBL, 0, 0, INFINITY, 0, 0},
    {LF_DBL, 0, 0, NAN, 0, 0},
    {LF_STR, 0, 0, 0, "123456789", 9},
    {LF_STR, 0, 0, 0, s40, 40},
    {LF_STR_SEP, 0, 0, 0, "a", 1},
    {LF_STR_SEP, 0, 0, 0, s40, 40},
    {LF_STR_SEP, 0, 0, 0, "a\0b", 3},
    {LF_I64, INT64_MIN, 0, 0, 0, 0},
};
#define NLEAVES (int)(sizeof LEAVES / sizeof LEAVES[0])
#define NSUB 12

static struct json_object *leaf_build(const struct leaf *l)
{
	switch (l->k)
	{
	case LF_NULL: return NULL;
	case LF_TRUE: return json_object_new_boolean(1);
	case LF_FALSE: return json_object_new_boolean(0);
	case LF_I64: return json_object_new_int64(l->i);
	case LF_U64: return json_object_new_uint64(l->u);
	case LF_DBL: return json_object_new_double(l->d);
	case LF_STR: return json_object_new_string_len(l->s, l->slen);
	case LF_STR_SEP:
	{
		struct json_object *o = json_object_new_string("");
		json_object_set_string_len(o, l->s, l->slen);
		return o;
	}
	}
	return NULL;
}
static V *leaf_model(const struct leaf *l)
{
	switch (l->k)
	{
	case LF_NULL: return v_null();
	case LF_TRUE: return v_bool(1);
	case LF_FALSE: return v_bool(0);
	case LF_I64: return v_i64(l->i);
	case LF_U64: return v_int(0, l->u);
	case LF_DBL: return v_dbl(l->d);
	default: return v_str(l->s, (size_t)l->slen);
	}
}

/* ---- family ---- */
#define MAXE 8192
static struct json_object *EO[MAXE];
static V *EV[MAXE];
static int EN;
static int has_nan[MAXE];
static int v_has_nan(const V *v)
{
	if (v->k == V_DBL)
		return v->d != v->d;
	if (v->k == V_ARR || v->k == V_OBJ)
		for (size_t i = 0; i < v->n; i++)
			if (v_has_nan(v->items[i]))
				return 1;
	return 0;
}
static void add_member(struct json_object *o, V *v)
{
	if (EN >= MAXE)
		abort();
	EO[EN] = o;
	EV[EN] = v;
	has_nan[EN] = v_has_nan(v);
	EN++;
}
/* build a fresh json-c tree for family member described by V + leaf indices: we rebuild from
 * descriptors so that every member is its own set of nodes */
struct desc
{
	int kind; /* 0 leaf, 1 array, 2 object */
	int leaf;
	int nch;
	int child[2]; /* indices into DESC of lower level */
	int key[2];   /* 0 = "a", 1 = "b" */
};
static struct desc DESC[MAXE];
static int ND;
static struct json_object *desc_build(int d)
{
	static const char *keys[] = {"a", "b"};
	const struct desc *x = &DESC[d];
	if (x->kind == 0)
		return leaf_build(&LEAVES[x->leaf]);
	if (x->kind == 1)
	{
		struct json_object *a = json_object_new_array();
		for (int i = 0; i < x->nch; i++)
			json_object_array_add(a, desc_build(x->child[i]));
		return a;
	}
	struct json_object *o = json_object_new_object();
	for (int i = 0; i < x->nch; i++)
		json_object_object_add(o, keys[x->key[i]], desc_build(x->child[i]));
	return o;
}
static V *desc_model(int d)
{
	static const char *keys[] = {"a", "b"};
	const struct desc *x = &DESC[d];
	if (x->kind == 0)
		return leaf_model(&LEAVES[x->leaf]);
	if (x->kind == 1)
	{
		V *a = v_arr((size_t)x->nch);
		for (int i = 0; i < x->nch; i++)
			a->items[i] = desc_model(x->child[i]);
		return a;
	}
	V *o = v_obj((size_t)x->nch);
	for (int i = 0; i < x->nch; i++)
		v_obj_set(o, (size_t)i, keys[x->key[i]], 1, desc_model(x->child[i]));
	return o;
}
static int add_desc(struct desc d)
{
	if (ND >= MAXE)
		abort();
	DESC[ND] = d;
	return ND++;
}
static void containers_over(const int *pool, int npool)
{
	/* arrays and objects with <= 2 children from pool */
	add_desc((struct desc){1, 0, 0, {0, 0}, {0, 0}});
	add_desc((struct desc){2, 0, 0, {0, 0}, {0, 0}});
	for (int i = 0; i < npool; i++)
	{
		add_desc((struct desc){1, 0, 1, {pool[i], 0}, {0, 0}});
		add_desc((struct desc){2, 0, 1, {pool[i], 0}, {0, 0}});
		add_desc((struct desc){2, 0, 1, {pool[i], 0}, {1, 0}});
		for (int j = 0; j < npool; j++)
		{
			add_desc((struct desc){1, 0, 2, {pool[i], pool[j]}, {0, 0}});
			add_desc((struct desc){2, 0, 2, {pool[i], pool[j]}, {0, 1}}); /* a then b */
			add_desc((struct desc){2, 0, 2, {pool[i], pool[j]}, {1, 0}}); /* b then a: member permutation */
		}
	}
}
static void build_family(void)
{
	int pool0[64];
	for (int i = 0; i < NLEAVES; i++)
	{
		int d = add_desc((struct desc){0, i, 0, {0, 0}, {0, 0}});
		pool0[i] = d;
	}
	int nsub = mc_tier ? NLEAVES : 8;
	int d1_start = ND;
	containers_over(pool0, nsub);
	int d1_end = ND;
	/* depth-2 children: a sub-family of depth<=1 values */
	int pool1[32], np1 = 0;
	int want = mc_tier ? 20 : 7;
	pool1[np1++] = pool0[3]; /* int 5 */
	pool1[np1++] = pool0[9]; /* NaN */
	pool1[np1++] = d1_start; /* [] */
	pool1[np1++] = d1_start + 1; /* {} */
	int stride = (d1_end - d1_start) / (want - 4 + 1);
	for (int k = 1; np1 < want; k++)
		pool1[np1++] = d1_start + 2 + k * stride;
	containers_over(pool1, np1);
	for (int d = 0; d < ND; d++)
		add_member(desc_build(d), desc_model(d));
}

static int cur_i = -1, cur_j = -1;
static const char *cur_what = "";
static void describe(sb_t *o)
{
	sb_printf(o, "%s i=%d j=%d A=", cur_what, cur_i, cur_j);
	if (cur_i >= 0)
		v_dump(EV[cur_i], o, 0);
	sb_puts(o, " B=");
	if (cur_j >= 0)
		v_dump(EV[cur_j], o, 0);
}

static unsigned char *R; /* computed relation */
static int uf[MAXE];
static int uf_find(int x)
{
	while (uf[x] != x)
		x = uf[x] = uf[uf[x]];
	return x;
}

static void fam_pairs(void)
{
	cur_what = "equal";
	R = calloc((size_t)EN * (size_t)EN, 1);
	for (int i = 0; i < EN; i++)
	{
		cur_i = i;
		for (int j = 0; j < EN; j++)
		{
			cur_j = j;
			int want = (i == j) ? 1 : v_equal(EV[i], EV[j]);
			int got = json_object_equal(EO[i], EO[j]);
			R[(size_t)i * EN + j] = (unsigned char)!!got;
			if (got && i != j)
				mc_outcome((uint64_t)i * 100003u + (uint64_t)j);
			if (mc_mine((uint64_t)i))
			{
				MC_COUNT("calls", 1);
				if (mc_case_begin_all() && !!got != want)
					mc_violation(got ? "equal-but-values-differ" : "unequal-but-values-equal", "json_object_equal = %d, value-model equality = %d", got, want);
			}
		}
		if (mc_mine((uint64_t)i))
		{
			sb_t d = {0};
			v_dump(EV[i], &d, 0);
			mc_nontrivial(mc_hash(d.p, d.n, 1));
			sb_free(&d);
			mc_sample_current();
		}
	}
	/* symmetry and transitivity of the COMPUTED relation (every shard holds all of R; the
	 * closure is judged by shard 0 only) */
	if (mc_shard == 0)
	{
		cur_what = "closure";
		for (int i = 0; i < EN; i++)
			uf[i] = i;
		for (int i = 0; i < EN; i++)
			for (int j = 0; j < EN; j++)
			{
				if (R[(size_t)i * EN + j] != R[(size_t)j * EN + i])
				{
					cur_i = i;
					cur_j = j;
					mc_violation("not-symmetric", "equal(A,B)=%d but equal(B,A)=%d", R[(size_t)i * EN + j], R[(size_t)j * EN + i]);
				}
				if (R[(size_t)i * EN + j])
					uf[uf_find(i)] = uf_find(j);
			}
		long classes = 0;
		for (int i = 0; i < EN; i++)
		{
			classes += uf_find(i) == i;
			if (!R[(size_t)i * EN + i])
			{
				cur_i = cur_j = i;
				mc_violation("not-reflexive", "equal(A,A) = 0 for the identical node");
			}
			for (int j = 0; j < EN; j++)
				if (uf_find(i) == uf_find(j) && !R[(size_t)i * EN + j])
				{
					cur_i = i;
					cur_j = j;
					mc_violation("not-transitive", "A and B are connected through a chain of equal pairs but equal(A,B) = 0");
				}
		}
		MC_COUNT("equivalence_classes", classes);
	}
	cur_i = cur_j = -1;
}

/* ---- deep copy ---- */
static void collect(struct json_object *o, struct json_object **out, int *n)
{
	if (!o)
		return;
	out[(*n)++] = o;
	if (json_object_is_type(o, json_type_array))
		for (size_t i = 0; i < json_object_array_length(o); i++)
			collect(json_object_array_get_idx(o, i), out, n);
	else if (json_object_is_type(o, json_type_object))
	{
		json_object_object_foreach(o, k, v)
		{
			(void)k;
			collect(v, out, n);
		}
	}
}
static void mutate(struct json_object *n)
{
	switch (json_object_get_type(n))
	{
	case json_type_boolean: json_object_set_boolean(n, !json_object_get_boolean(n)); break;
	case json_type_int: json_object_set_int64(n, json_object_get_int64(n) == 77 ? 78 : 77); break;
	case json_type_double: json_object_set_double(n, 123.25); break;
	case json_type_string: json_object_set_string(n, "mutated-contents-longer-than-inline"); break;
	case json_type_array: json_object_array_add(n, json_object_new_int(99)); break;
	case json_type_object: json_object_object_add(n, "zz", json_object_new_int(99)); break;
	default: break;
	}
}
static sb_t ds1, ds2, ds3;
/* second kind of mutation: removal (members and elements are released, keys freed) */
static void mutate_remove(struct json_object *n)
{
	if (json_object_is_type(n, json_type_array))
	{
		if (json_object_array_length(n))
			json_object_array_del_idx(n, 0, 1);
	}
	else if (json_object_is_type(n, json_type_object))
	{
		char first[64] = "";
		json_object_object_foreach(n, k, v)
		{
			(void)v;
			snprintf(first, sizeof first, "%s", k);
			break;
		}
		if (json_object_object_length(n))
			json_object_object_del(n, first);
	}
	else
		mutate(n);
}
/* how to build a brand-new tree equal to the source under test (its own nodes, its own key storage) */
static int fresh_desc = -1;
static const char *fresh_doc;
static struct json_object *fresh_source(void)
{
	if (fresh_doc)
		return json_tokener_parse(fresh_doc);
	if (fresh_desc >= 0)
		return desc_build(fresh_desc);
	return NULL;
}
static void check_copy_of(struct json_object *src, int nanfree)
{
	struct json_object *cp = NULL;
	MC_COUNT("calls", 1);
	int rc = json_object_deep_copy(src, &cp, NULL);
	if (!src)
	{
		if (rc == 0)
			mc_violation("copy-of-null-accepted", "deep copy of NULL returned 0");
		return;
	}
	if (rc != 0 || !cp)
	{
		mc_violation("copy-failed", "json_object_deep_copy returned %d", rc);
		return;
	}
	if (nanfree && (!json_object_equal(src, cp) || !json_object_equal(cp, src)))
		mc_violation("copy-not-equal", "the copy is not json_object_equal to its NaN-free source");
	sb_reset(&ds1);
	sb_reset(&ds2);
	vf_dump(src, &ds1, DUMP_SER);
	vf_dump(cp, &ds2, DUMP_SER);
	if (strcmp(sb_str(&ds1), sb_str(&ds2)))
		mc_violation("copy-dump-differs", "typed dump of the copy %.150s differs from the source %.150s", sb_str(&ds2), sb_str(&ds1));
	for (int flags = 0; flags < 64; flags++)
	{
		char *a = strdup(json_object_to_json_string_ext(src, flags));
		const char *b = json_object_to_json_string_ext(cp, flags);
		if (strcmp(a, b))
			mc_violation("copy-serializes-differently", "flags %d: source %.100s, copy %.100s", flags, a, b);
		free(a);
	}
	struct json_object *ns[64], *nc[64];
	int n1 = 0, n2 = 0;
	collect(src, ns, &n1);
	collect(cp, nc, &n2);
	for (int i = 0; i < n1; i++)
		for (int j = 0; j < n2; j++)
			if (ns[i] == nc[j])
				mc_violation("copy-shares-node", "node %d of the source is also node %d of the copy", i, j);
	json_object_put(cp);
	/* mutate each node position of a fresh copy: the source must not change; and vice versa */
	for (int pos = 0; pos < n1; pos++)
	{
		cp = NULL;
		json_object_deep_copy(src, &cp, NULL);
		n2 = 0;
		collect(cp, nc, &n2);
		mutate(nc[pos]);
		mutate_remove(nc[pos]);
		sb_reset(&ds3);
		vf_dump(src, &ds3, DUMP_SER);
		if (strcmp(sb_str(&ds1), sb_str(&ds3)))
			mc_violation("mutating-copy-changes-source", "after mutating node %d of the copy the source dumps as %.150s (was %.150s)", pos, sb_str(&ds3), sb_str(&ds1));
		json_object_put(cp);
		/* other direction: mutate a second copy acting as source of a third */
		struct json_object *s2 = NULL, *c2 = NULL;
		json_object_deep_copy(src, &s2, NULL);
		json_object_deep_copy(s2, &c2, NULL);
		int n3 = 0;
		struct json_object *n2s[64];
		collect(s2, n2s, &n3);
		mutate(n2s[pos]);
		mutate_remove(n2s[pos]);
		sb_reset(&ds3);
		vf_dump(c2, &ds3, DUMP_SER);
		if (strcmp(sb_str(&ds1), sb_str(&ds3)))
			mc_violation("mutating-source-changes-copy", "after mutating node %d of the source the copy dumps as %.150s (was %.150s)", pos, sb_str(&ds3), sb_str(&ds1));
		/* destroy the source, the copy stays usable (ASan would flag a shared buffer) */
		json_object_put(s2);
		sb_reset(&ds3);
		vf_dump(c2, &ds3, DUMP_SER);
		if (strcmp(sb_str(&ds1), sb_str(&ds3)))
			mc_violation("destroying-source-changes-copy", "after destroying the source the copy dumps as %.150s", sb_str(&ds3));
		json_object_put(c2);
		MC_COUNT("calls", 3);
	}
	/* a source that owns all of its storage (not itself a copy): empty it member by member, then
	 * destroy it, let the allocator reuse the blocks - the copy must not notice */
	if (fresh_doc || fresh_desc >= 0)
	{
		struct json_object *f = fresh_source(), *c = NULL;
		json_object_deep_copy(f, &c, NULL);
		struct json_object *fn[64];
		int nf = 0;
		collect(f, fn, &nf);
		for (int pos = nf - 1; pos >= 0; pos--)
		{
			/* bottom-up, so that every container is emptied while it is still reachable */
			while ((json_object_is_type(fn[pos], json_type_object) && json_object_object_length(fn[pos])) ||
			       (json_object_is_type(fn[pos], json_type_array) && json_object_array_length(fn[pos])))
				mutate_remove(fn[pos]);
		}
		sb_reset(&ds3);
		vf_dump(c, &ds3, DUMP_SER);
		if (strcmp(sb_str(&ds1), sb_str(&ds3)))
			mc_violation("mutating-source-changes-copy", "after removing every member of the source the copy dumps as %.150s (was %.150s)", sb_str(&ds3), sb_str(&ds1));
		json_object_put(f);
		void *junk[8];
		for (int k = 0; k < 8; k++)
		{
			junk[k] = vf_malloc((size_t)(2 + k * 6));
			memset(junk[k], 'J', (size_t)(2 + k * 6));
		}
		sb_reset(&ds3);
		vf_dump(c, &ds3, DUMP_SER);
		if (strcmp(sb_str(&ds1), sb_str(&ds3)))
			mc_violation("destroying-source-changes-copy", "after destroying the source the copy dumps as %.150s (was %.150s)", sb_str(&ds3), sb_str(&ds1));
		for (int k = 0; k < 8; k++)
			vf_free(junk[k]);
		json_object_put(c);
		/* and the other way round: destroy the copy first, the source stays intact */
		f = fresh_source();
		c = NULL;
		json_object_deep_copy(f, &c, NULL);
		json_object_put(c);
		sb_reset(&ds3);
		vf_dump(f, &ds3, DUMP_SER);
		if (strcmp(sb_str(&ds1), sb_str(&ds3)))
			mc_violation("destroying-copy-changes-source", "after destroying the copy the source dumps as %.150s (was %.150s)", sb_str(&ds3), sb_str(&ds1));
		json_object_put(f);
		MC_COUNT("calls", 2);
	}
}
static unsigned char TXT[256];
static size_t TXL;
static void fam_copy(void)
{
	cur_what = "deep-copy";
	for (int i = 0; i < EN; i++)
	{
		cur_i = i;
		cur_j = -1;
		if (!mc_case_begin())
			continue;
		/* serializing allocates print buffers inside the (persistent) source nodes: do it once
		 * before the accounting baseline */
		sb_reset(&ds3);
		vf_dump(EO[i], &ds3, DUMP_SER);
		(void)json_object_to_json_string(EO[i]);
		long live0 = vf_live();
		fresh_desc = i; /* family member i was built from descriptor i */
		fresh_doc = NULL;
		check_copy_of(EO[i], !has_nan[i]);
		fresh_desc = -1;
		if (vf_live() != live0)
		{
			mc_violation("leak", "%ld blocks leaked by the deep-copy probes", vf_live() - live0);
			mc_restart_worker();
		}
		mc_sample_current();
	}
	cur_i = cur_j = -1;
	/* parsed trees: retained number text and integer signedness */
	cur_what = "deep-copy-of-parsed";
	static const char *docs[] = {"1.0", "1.50", "1e2", "-0.0", "100.000", "1.5e+20", "[1.10,2.2e1,{\"a\":3.0}]", "18446744073709551615", "9223372036854775808",
	                             "[9223372036854775807,-9223372036854775808,5]", "{\"a\":[1.0,{\"b\":\"x\"}],\"b\":null}", "\"a\\u0000b\"", "[null,true,false]",
	                             "0.1e-2", "12E3", "{\"k\":1e0}"};
	for (unsigned i = 0; i < sizeof docs / sizeof docs[0]; i++)
	{
		TXL = strlen(docs[i]);
		memcpy(TXT, docs[i], TXL);
		if (!mc_case_begin())
			continue;
		long live0 = vf_live();
		struct json_object *o = json_tokener_parse(docs[i]);
		fresh_doc = docs[i];
		check_copy_of(o, 1);
		fresh_doc = NULL;
		json_object_put(o);
		if (vf_live() != live0)
		{
			mc_violation("leak", "%ld blocks leaked", vf_live() - live0);
			mc_restart_worker();
		}
	}
	/* API-built nodes that carry serializer data: retained text (new_double_s) and a per-node format */
	cur_what = "deep-copy-of-serializer-data";
	for (int variant = 0; variant < 8; variant++)
	{
		TXL = (size_t)snprintf((char *)TXT, 64, "serializer-data variant %d", variant);
		if (!mc_case_begin())
			continue;
		long live0 = vf_live();
		struct json_object *o = json_object_new_array();
		struct json_object *d1 = json_object_new_double_s(1.5, "1.50"), *d2 = json_object_new_double(2.25), *d3 = json_object_new_double_s(1e2, "1e2");
		if (variant & 4)
			json_object_set_serializer(d2, json_object_double_to_json_string, (void *)"%.3f", NULL);
		if (variant & 1)
		{
			struct json_object *in = json_object_new_object();
			json_object_object_add(in, "x", d1);
			json_object_object_add(in, "y", d2);
			json_object_array_add(o, in);
		}
		else
		{
			json_object_array_add(o, d1);
			json_object_array_add(o, d2);
		}
		json_object_array_add(o, d3);
		if (variant & 2)
			json_object_set_double(d3, 7.5); /* documented: setting a value drops the retained text */
		const char *t = json_object_to_json_string_ext(o, JSON_C_TO_STRING_PLAIN);
		char want[64];
		snprintf(want, sizeof want, (variant & 1) ? "[{\"x\":1.50,\"y\":%s},%s]" : "[1.50,%s,%s]", (variant & 4) ? "2.250" : "2.25", (variant & 2) ? "7.5" : "1e2");
		if (strcmp(t, want))
			mc_violation("serializer-data-not-used", "source serializes as %s, expected %s", t, want);
		if (variant & 4)
		{
			/* documented: a custom serializer needs a custom shallow-copy function; the default one must fail cleanly */
			struct json_object *c = NULL;
			long live1 = vf_live();
			int rc = json_object_deep_copy(o, &c, NULL);
			if (rc != -1 || c != NULL)
				mc_violation("copy-of-custom-serializer-not-refused", "deep copy of a node with a custom serializer returned %d, dst %s", rc, c ? "set" : "NULL");
			if (c)
				json_object_put(c);
			if (vf_live() != live1)
				mc_violation("leak", "%ld blocks leaked by the refused deep copy", vf_live() - live1);
		}
		else
			check_copy_of(o, 1);
		json_object_put(o);
		if (vf_live() != live0)
		{
			mc_violation("leak", "%ld blocks leaked", vf_live() - live0);
			mc_restart_worker();
		}
	}
	/* objects created under different global string hashes (each table keeps the function it was created
	 * with): equality and deep copy must not care */
	{
		static const char *hdocs[] = {"{\"a\":1,\"b\":[2,{\"c\":null}],\"\":\"s\"}", "{\"k1\":{\"k2\":{\"k3\":1}},\"z\":false}", "{}", "[{\"x\":1},{\"y\":2.5}]"};
		for (unsigned i = 0; i < sizeof hdocs / sizeof hdocs[0]; i++)
			for (int dir = 0; dir < 2; dir++)
			{
				TXL = (size_t)snprintf((char *)TXT, 200, "hash switch dir=%d doc=%s", dir, hdocs[i]);
				if (!mc_case_begin())
					continue;
				long live0 = vf_live();
				json_global_set_string_hash(dir ? JSON_C_STR_HASH_PERLLIKE : JSON_C_STR_HASH_DFLT);
				struct json_object *o1 = json_tokener_parse(hdocs[i]);
				json_global_set_string_hash(dir ? JSON_C_STR_HASH_DFLT : JSON_C_STR_HASH_PERLLIKE);
				struct json_object *o2 = json_tokener_parse(hdocs[i]), *o3 = NULL;
				MC_COUNT("calls", 5);
				if (json_object_deep_copy(o1, &o3, NULL) != 0)
					mc_violation("copy-failed", "deep copy after a hash switch failed");
				if (!json_object_equal(o1, o2) || !json_object_equal(o2, o1))
					mc_violation("unequal-but-values-equal", "two parses of %s under different global string hashes compare unequal", hdocs[i]);
				if (o3 && (!json_object_equal(o1, o3) || !json_object_equal(o3, o1)))
					mc_violation("copy-not-equal", "the deep copy made after a hash switch is not equal to its source (%s)", hdocs[i]);
				json_object_put(o1);
				json_object_put(o2);
				json_object_put(o3);
				json_global_set_string_hash(JSON_C_STR_HASH_DFLT);
				if (vf_live() != live0)
				{
					mc_violation("leak", "%ld blocks leaked", vf_live() - live0);
					mc_restart_worker();
				}
			}
	}
	/* the documented public idiom for retained text: json_object_userdata_to_json_string + json_object_free_userdata */
	for (int variant = 0; variant < 2; variant++)
	{
		TXL = (size_t)snprintf((char *)TXT, 64, "public userdata serializer variant %d", variant);
		if (!mc_case_begin())
			continue;
		long live0 = vf_live();
		struct json_object *d = json_object_new_double(1.5);
		json_object_set_serializer(d, json_object_userdata_to_json_string, vf_strdup("1.50"), json_object_free_userdata);
		struct json_object *o = d;
		if (variant)
		{
			o = json_object_new_object();
			json_object_object_add(o, "price", d);
		}
		const char *want = variant ? "{\"price\":1.50}" : "1.50";
		struct json_object *c = NULL;
		MC_COUNT("calls", 1);
		if (json_object_deep_copy(o, &c, NULL) != 0 || !c)
			mc_violation("copy-failed", "deep copy of a node using the public userdata serializer failed");
		else
		{
			if (strcmp(json_object_to_json_string_ext(c, JSON_C_TO_STRING_PLAIN), want))
				mc_violation("copy-serializes-differently", "the copy serializes as %s, expected %s", json_object_to_json_string_ext(c, JSON_C_TO_STRING_PLAIN), want);
			/* the source's retained text is the source's: editing it in place must not show in the copy */
			char *txt = json_object_get_userdata(d);
			txt[0] = '7';
			if (strcmp(json_object_to_json_string_ext(c, JSON_C_TO_STRING_PLAIN), want))
				mc_violation("mutating-source-changes-copy", "after editing the source's retained text the copy serializes as %s", json_object_to_json_string_ext(c, JSON_C_TO_STRING_PLAIN));
			json_object_put(o);
			o = NULL;
			void *junk = vf_malloc(5);
			memset(junk, 'J', 5);
			if (strcmp(json_object_to_json_string_ext(c, JSON_C_TO_STRING_PLAIN), want))
				mc_violation("destroying-source-changes-copy", "after destroying the source the copy serializes as %s", json_object_to_json_string_ext(c, JSON_C_TO_STRING_PLAIN));
			vf_free(junk);
			json_object_put(c);
		}
		if (o)
			json_object_put(o);
		if (vf_live() != live0)
		{
			mc_violation("leak", "%ld blocks leaked", vf_live() - live0);
			mc_restart_worker();
		}
	}
	/* argument errors */
	if (mc_case_begin())
	{
		struct json_object *o = json_object_new_int(1), *dst = o;
		if (json_object_deep_copy(o, &dst, NULL) == 0)
			mc_violation("copy-into-non-null", "deep copy into a non-NULL destination returned 0");
		if (json_object_deep_copy(o, NULL, NULL) == 0)
			mc_violation("copy-into-null-pointer", "deep copy with dst == NULL returned 0");
		json_object_put(o);
	}
}

static void enumerate(void)
{
	build_family();
	MC_COUNT("family_size", mc_shard == 0 ? EN : 0);
	long base = vf_live();
	fam_pairs();
	fam_copy();
	for (int i = 0; i < EN; i++)
		json_object_put(EO[i]);
	(void)base;
	if (vf_live())
		mc_violation("leak", "%ld blocks live after releasing the family", vf_live());
}
static int replay(const char *desc)
{
	(void)desc;
	enumerate();
	return (int)mc_violations();
}
int main(int argc, char **argv)
{
	struct mc_harness h = {"c09", enumerate, describe, replay};
	return mc_main(argc, argv, &h);
}
