/* C01 - parse(valid text) = the denoted value.  DESIGN.md section 3/C01.
 * Enumerates complete sub-languages of RFC 8259; for each text, default and
 * strict mode, delivered NUL-terminated and with an exact length against a
 * guard page; oracle = independent reference reader -> value model. */
#include "mc.h"
#include "json.h"
#include <errno.h>
#include <stdlib.h>
#include <string.h>

static unsigned char T[1 << 16];
static size_t TL;
static int cur_strict, cur_deliv; /* deliv 0 = NUL terminated, 1 = exact length + guard page */
static const char *cur_fam = "?";

static void describe(sb_t *o)
{
	sb_printf(o, "fam=%s strict=%d deliv=%d text=", cur_fam, cur_strict, cur_deliv);
	sb_hex(o, T, TL);
	sb_puts(o, " ascii=");
	for (size_t i = 0; i < TL && i < 120; i++)
		sb_putc(o, (T[i] >= 0x21 && T[i] < 0x7f) ? (char)T[i] : '.');
}

static sb_t d_exp, d_got;
static int has_high_byte(const unsigned char *p, size_t n)
{
	for (size_t i = 0; i < n; i++)
		if (p[i] >= 0x80)
			return 1;
	return 0;
}
static int wellformed_utf8(const unsigned char *p, size_t n)
{
	for (size_t i = 0; i < n;)
	{
		unsigned c = p[i];
		int k;
		unsigned lo = 0x80, hi = 0xbf;
		if (c < 0x80)
		{
			i++;
			continue;
		}
		if (c >= 0xc2 && c <= 0xdf)
			k = 1;
		else if (c >= 0xe0 && c <= 0xef)
		{
			k = 2;
			if (c == 0xe0)
				lo = 0xa0;
			if (c == 0xed)
				hi = 0x9f;
		}
		else if (c >= 0xf0 && c <= 0xf4)
		{
			k = 3;
			if (c == 0xf0)
				lo = 0x90;
			if (c == 0xf4)
				hi = 0x8f;
		}
		else
			return 0;
		if (i + (size_t)k >= n)
			return 0;
		if (p[i + 1] < lo || p[i + 1] > hi)
			return 0;
		for (int j = 2; j <= k; j++)
			if (p[i + (size_t)j] < 0x80 || p[i + (size_t)j] > 0xbf)
				return 0;
		i += (size_t)k + 1;
	}
	return 1;
}

static int one(int strict, int deliv)
{
	cur_strict = strict;
	cur_deliv = deliv;
	if (!mc_case_begin())
		return 0;
	int before = (int)mc_violations();
	va_reset();
	struct rr_opts ro = {.strict_range = strict};
	struct rr_result rr;
	rr_parse(T, TL, &ro, &rr);
	if (rr.status == RR_SYNTAX)
	{
		mc_violation("harness:family-text-not-valid", "the reference reader rejects a text of a family meant to be valid");
		return 1;
	}
	struct json_tokener *tok = json_tokener_new();
	json_tokener_set_flags(tok, strict ? JSON_TOKENER_STRICT : 0);
	struct json_object *obj;
	enum json_tokener_error err;
	size_t end;
	MC_COUNT("calls", 1);
	if (deliv == 0)
	{
		char *buf = mc_guard_buf(TL + 1);
		memcpy(buf, T, TL);
		buf[TL] = 0;
		errno = mc_errno_pre;
		obj = json_tokener_parse_ex(tok, buf, (int)TL + 1);
		err = json_tokener_get_error(tok);
		end = json_tokener_get_parse_end(tok);
	}
	else
	{
		char *buf = mc_guard_buf(TL);
		memcpy(buf, T, TL);
		errno = mc_errno_pre;
		obj = json_tokener_parse_ex(tok, buf, (int)TL);
		err = json_tokener_get_error(tok);
		end = json_tokener_get_parse_end(tok);
		if (err == json_tokener_continue)
		{
			if (obj)
				mc_violation("continue-with-value", "parse_ex returned a value together with status continue");
			char *nul = mc_guard_buf(1);
			nul[0] = 0;
			MC_COUNT("calls", 1);
			obj = json_tokener_parse_ex(tok, nul, 1);
			err = json_tokener_get_error(tok);
			end = TL + json_tokener_get_parse_end(tok);
			MC_COUNT("needed_final_nul", 1);
		}
	}
	/* flag combinations that do not concern a complete text: JSON_TOKENER_ALLOW_TRAILING_CHARS added to the
	 * mode must leave status and value of a text without trailing characters as they are */
	if (deliv == 0)
	{
		char *buf = mc_guard_buf(TL + 1);
		memcpy(buf, T, TL);
		buf[TL] = 0;
		struct json_tokener *t4 = json_tokener_new();
		json_tokener_set_flags(t4, JSON_TOKENER_ALLOW_TRAILING_CHARS | (strict ? JSON_TOKENER_STRICT : 0));
		MC_COUNT("calls", 1);
		errno = mc_errno_pre;
		struct json_object *o4 = json_tokener_parse_ex(t4, buf, (int)TL + 1);
		enum json_tokener_error e4 = json_tokener_get_error(t4);
		sb_t da = {0}, db = {0};
		vf_dump(obj, &da, 0);
		vf_dump(o4, &db, 0);
		if ((e4 == json_tokener_success) != (err == json_tokener_success) || (!o4) != (!obj) || strcmp(sb_str(&da), sb_str(&db)))
			mc_violation(rr.status == RR_RANGE && e4 == json_tokener_success ? "strict-accepts-out-of-range-integer" : "allow-trailing-flag-changes-result",
			             "with JSON_TOKENER_ALLOW_TRAILING_CHARS added: %s, value %s; without: %s, value %s", json_tokener_error_desc(e4), o4 ? sb_str(&db) : "NULL",
			             json_tokener_error_desc(err), obj ? sb_str(&da) : "NULL");
		sb_free(&da);
		sb_free(&db);
		if (o4)
			json_object_put(o4);
		json_tokener_free(t4);
	}
	if (rr.status == RR_RANGE)
	{
		/* integer beyond 64 bits in strict mode: must be rejected */
		if (err == json_tokener_success)
			mc_violation("strict-accepts-out-of-range-integer", "strict mode accepted an integer beyond 64 bits (got %s)",
			             obj ? json_object_to_json_string(obj) : "null");
		mc_outcome(mc_hash("range-reject", 12, (uint64_t)err));
	}
	else if (err != json_tokener_success)
	{
		mc_violation(rr.had_nul_key ? "reject-nul-in-member-name" : "valid-text-rejected",
		             "valid text rejected: %s at offset %zu", json_tokener_error_desc(err), end);
	}
	else
	{
		sb_reset(&d_exp);
		sb_reset(&d_got);
		v_dump(rr.value, &d_exp, 0);
		vf_dump(obj, &d_got, 0);
		if (strcmp(sb_str(&d_exp), sb_str(&d_got)) != 0)
		{
			const char *sig = "value-mismatch";
			if (rr.had_nul_key)
			{
				/* narrow predicate of the known finding: the ONLY deviation is that member
				 * names are cut at their first NUL (json-c keys are C strings) */
				struct rr_opts rc = {.strict_range = strict, .cstring_keys = 1};
				struct rr_result r2;
				rr_parse(T, TL, &rc, &r2);
				sb_t d2 = {0};
				v_dump(r2.value, &d2, 0);
				if (!strcmp(sb_str(&d2), sb_str(&d_got)))
					sig = "nul-in-member-name-truncated";
				sb_free(&d2);
			}
			mc_violation(sig, "expected %s got %s", sb_str(&d_exp), sb_str(&d_got));
		}
		/* the convenience entry points (default mode, C string) must return the same tree */
		if (!strict && deliv == 0)
		{
			char *buf = mc_guard_buf(TL + 1);
			memcpy(buf, T, TL);
			buf[TL] = 0;
			MC_COUNT("calls", 2);
			enum json_tokener_error ve = (enum json_tokener_error)77;
			struct json_object *o1 = json_tokener_parse(buf), *o2 = json_tokener_parse_verbose(buf, &ve);
			sb_t d2 = {0};
			vf_dump(o1, &d2, 0);
			if (strcmp(sb_str(&d2), sb_str(&d_got)) != 0 || (!o1 && obj))
				mc_violation("entry-points-differ", "json_tokener_parse gives %s, parse_ex gives %s", o1 ? sb_str(&d2) : "NULL", sb_str(&d_got));
			sb_reset(&d2);
			vf_dump(o2, &d2, 0);
			if (strcmp(sb_str(&d2), sb_str(&d_got)) != 0 || (!o2 && obj))
				mc_violation("entry-points-differ", "json_tokener_parse_verbose gives %s (error %d), parse_ex gives %s", o2 ? sb_str(&d2) : "NULL", (int)ve, sb_str(&d_got));
			else if (ve != json_tokener_success)
				mc_violation("entry-points-differ", "json_tokener_parse_verbose returned the value but stored error %d", (int)ve);
			sb_free(&d2);
			if (o1)
				json_object_put(o1);
			if (o2)
				json_object_put(o2);
		}
		/* a third mode: with JSON_TOKENER_VALIDATE_UTF8 a text that is well-formed UTF-8 (RFC 3629:
		 * no overlong forms, no surrogates, at most U+10FFFF) is accepted with the same value */
		if (deliv == 0 && has_high_byte(T, TL) && wellformed_utf8(T, TL))
		{
			char *buf = mc_guard_buf(TL + 1);
			memcpy(buf, T, TL);
			buf[TL] = 0;
			struct json_tokener *t2 = json_tokener_new();
			json_tokener_set_flags(t2, JSON_TOKENER_VALIDATE_UTF8 | (strict ? JSON_TOKENER_STRICT : 0));
			MC_COUNT("calls", 1);
			errno = mc_errno_pre;
			struct json_object *o3 = json_tokener_parse_ex(t2, buf, (int)TL + 1);
			if (json_tokener_get_error(t2) != json_tokener_success)
				mc_violation("valid-utf8-rejected-when-validating", "with JSON_TOKENER_VALIDATE_UTF8: %s at offset %zu", json_tokener_error_desc(json_tokener_get_error(t2)),
				             json_tokener_get_parse_end(t2));
			else
			{
				sb_t d3 = {0};
				vf_dump(o3, &d3, 0);
				if (strcmp(sb_str(&d3), sb_str(&d_got)))
					mc_violation("value-mismatch", "with JSON_TOKENER_VALIDATE_UTF8 the value is %s, without it %s", sb_str(&d3), sb_str(&d_got));
				sb_free(&d3);
			}
			if (o3)
				json_object_put(o3);
			json_tokener_free(t2);
		}
		/* the end position is C03's business (consistency across chunkings); here only that it is within the input */
		if (end > TL + 1)
			mc_violation("parse-end-beyond-input", "parse end %zu, text length %zu (+ NUL)", end, TL);
		mc_outcome(mc_hash(d_got.p, d_got.n, 0));
		if (d_got.n > 2)
			mc_nontrivial(mc_hash(T, TL, 0));
	}
	if (obj)
		json_object_put(obj);
	json_tokener_free(tok);
	if (vf_live() != 0)
	{
		mc_violation("leak", "%ld blocks live after releasing the value and the parser", vf_live());
		/* forget them so the next case is judged on its own */
	}
	mc_sample_current();
	return (int)mc_violations() - before;
}

static int all_modes(void)
{
	int v = 0;
	for (int s = 0; s < 2; s++)
		for (int d = 0; d < 2; d++)
			v += one(s, d);
	return v;
}

static void set_text(const void *p, size_t n)
{
	memcpy(T, p, n);
	TL = n;
}
static void set_textf(const char *fmt, ...)
{
	va_list ap;
	va_start(ap, fmt);
	TL = (size_t)vsnprintf((char *)T, sizeof T, fmt, ap);
	va_end(ap);
}

/* ---- family 1: escapes ---- */
static void fam_escapes(void)
{
	static const char *hexfmt[3] = {"%04x", "%04X", NULL};
	cur_fam = "escape-unit";
	for (unsigned u = 0; u < 0x10000; u++)
		for (int cs = 0; cs < 3; cs++)
		{
			char h[8];
			if (hexfmt[cs])
				snprintf(h, sizeof h, hexfmt[cs], u);
			else
			{
				snprintf(h, sizeof h, "%04x", u);
				/* mixed: upper-case digits 1 and 3 */
				for (int k = 1; k < 4; k += 2)
					if (h[k] >= 'a')
						h[k] = (char)(h[k] - 32);
			}
			if (cs && !strpbrk(h, "abcdefABCDEF"))
				continue; /* same text as cs 0 */
			set_textf("\"\\u%s\"", h);
			all_modes();
			if (cs == 0 || mc_tier)
			{
				set_textf("{\"\\u%s\":0}", h);
				all_modes();
				set_textf("[\"x\\u%sy\"]", h);
				all_modes();
			}
		}
	cur_fam = "escape-scalar";
	unsigned step = mc_tier ? 1 : 1; /* both tiers: all supplementary scalar values via pairs */
	for (unsigned cp = 0x10000; cp < 0x110000; cp += step)
	{
		unsigned v = cp - 0x10000;
		unsigned hi = 0xD800 + (v >> 10), lo = 0xDC00 + (v & 0x3FF);
		if (!mc_tier && (lo & 0x3f) > 1 && (lo & 0x3f) < 0x3e && (hi & 0xf) > 1 && (hi & 0xf) < 0xe)
			continue; /* quick: every pair whose low 6 bits / high 4 bits are at a field edge */
		set_textf("\"\\u%04x\\u%04x\"", hi, lo);
		one(0, 0);
		one(1, 1);
	}
	cur_fam = "surrogate-follower";
	static const char *followers[] = {"\\udc00", "\\udfff", "\\ud800", "\\udbff", "\\u0041", "\\uffff",
	                                  "\\n", "\\\\", "\\\"", "\\/", "A", "\xc3\xa9", "", "\\u0000x",
	                                  "\\ud83d\\ude00", " ",
	                                  /* a later \\u escape after the unpaired unit has been abandoned */
	                                  "\\n\\udc00", "\\\\\\u0041", "x\\ude00", "\\t\\ud83d\\ude00"};
	for (unsigned u = 0xD800; u < 0xE000; u++)
		for (unsigned k = 0; k < sizeof followers / sizeof followers[0]; k++)
		{
			set_textf("\"\\u%04x%s\"", u, followers[k]);
			one(0, 0);
			one(1, 1);
			if (mc_tier)
			{
				set_textf("{\"\\u%04x%s\":\"\\u%04x%s\"}", u, followers[k], u, followers[k]);
				one(0, 1);
				one(1, 0);
			}
		}
	cur_fam = "short-escapes";
	static const char *slot[] = {"\\\"", "\\\\", "\\/", "\\b", "\\f", "\\n", "\\r", "\\t", "x", "\\u00e9", "/"};
	int ns = sizeof slot / sizeof slot[0];
	for (int a = 0; a < ns; a++)
		for (int b = 0; b < ns; b++)
			for (int c = 0; c < ns; c++)
			{
				set_textf("\"%s%s%s\"", slot[a], slot[b], slot[c]);
				all_modes();
				set_textf("{\"%s%s%s\":[\"%s\"]}", slot[a], slot[b], slot[c], slot[c]);
				all_modes();
			}
}

/* ---- family 2: numbers ---- */
static int is_rfc_number(const unsigned char *t, size_t n)
{
	struct rr_opts ro = {0};
	struct rr_result rr;
	if (n == 0 || !(t[0] == '-' || (t[0] >= '0' && t[0] <= '9')))
		return 0;
	rr_parse(t, n, &ro, &rr);
	return rr.status == RR_OK;
}
static void number_contexts(const char *num)
{
	set_textf("%s", num);
	all_modes();
	set_textf("[%s]", num);
	all_modes();
	set_textf("{\"a\":%s,\"b\":[%s , %s]}", num, num, num);
	one(0, 0);
	one(1, 1);
}
static void fam_numbers(void)
{
	static const char alpha[] = "-019.eE+";
	int maxlen = mc_tier ? 8 : 6;
	cur_fam = "number-grammar";
	char s[16];
	for (int len = 1; len <= maxlen; len++)
	{
		uint64_t total = 1;
		for (int i = 0; i < len; i++)
			total *= 8;
		for (uint64_t x = 0; x < total; x++)
		{
			uint64_t y = x;
			for (int i = 0; i < len; i++)
			{
				s[i] = alpha[y & 7];
				y >>= 3;
			}
			s[len] = 0;
			va_reset();
			if (!is_rfc_number((unsigned char *)s, (size_t)len))
				continue;
			number_contexts(s);
		}
	}
	cur_fam = "number-lattice";
	static const char *bases[] = {"2147483648", "4294967296", "9007199254740992", "9223372036854775808",
	                              "18446744073709551616", "10000000000000000000", "100000000000000000000"};
	for (unsigned b = 0; b < sizeof bases / sizeof bases[0]; b++)
		for (int delta = -2; delta <= 2; delta++)
			for (int neg = 0; neg < 2; neg++)
			{
				unsigned __int128 v = 0;
				for (const char *p = bases[b]; *p; p++)
					v = v * 10 + (unsigned)(*p - '0');
				v = (unsigned __int128)((__int128)v + delta);
				char dig[48];
				int n = 0;
				while (v)
				{
					dig[n++] = (char)('0' + (int)(v % 10));
					v /= 10;
				}
				char txt[64];
				int k = 0;
				if (neg)
					txt[k++] = '-';
				while (n)
					txt[k++] = dig[--n];
				txt[k] = 0;
				number_contexts(txt);
				/* decimal / exponent spellings of the same boundary */
				char alt[96];
				snprintf(alt, sizeof alt, "%s.0", txt);
				number_contexts(alt);
				snprintf(alt, sizeof alt, "%se0", txt);
				number_contexts(alt);
				snprintf(alt, sizeof alt, "%s0E-1", txt);
				number_contexts(alt);
			}
	static const char *longs[] = {"12345678901234567890", "123456789012345678901", "99999999999999999999",
	                              "1234567890123456789012345678901234567890", "18446744073709551615",
	                              "9223372036854775807", "0", "-0", "-0.0", "0.0", "-0e0", "1e400", "-1e400",
	                              "1e-400", "4.9e-324", "2.2250738585072014e-308", "1.7976931348623157e308",
	                              "0.1", "0.30000000000000004", "123456789.123456789", "5e-324", "2.5e-324",
	                              "9007199254740993.0", "1.00000000000000011102230246251565404236316680908203125"};
	for (unsigned i = 0; i < sizeof longs / sizeof longs[0]; i++)
	{
		number_contexts(longs[i]);
		if (longs[i][0] != '-')
		{
			char alt[96];
			snprintf(alt, sizeof alt, "-%s", longs[i]);
			number_contexts(alt);
		}
	}
}

/* ---- family 3: structure ---- */
static sb_t txt;
static void with_ws_deviations(int all_gaps_filled)
{
	/* T holds a canonical text; insert whitespace at token gaps */
	static rr_token toks[4096];
	static unsigned char base[1 << 15];
	size_t bl = TL;
	memcpy(base, T, TL);
	int nt = rr_tokens(base, bl, toks, 4096);
	if (nt <= 0 || nt > 4096)
		return;
	static const char *ws[] = {" ", "\n", "\t\r"};
	if (all_gaps_filled)
	{
		for (int w = 0; w < 3; w++)
		{
			size_t k = 0;
			size_t wl = strlen(ws[w]);
			memcpy(T + k, ws[w], wl);
			k += wl;
			for (int i = 0; i < nt; i++)
			{
				memcpy(T + k, base + toks[i].start, toks[i].end - toks[i].start);
				k += toks[i].end - toks[i].start;
				memcpy(T + k, ws[(w + i) % 3], strlen(ws[(w + i) % 3]));
				k += strlen(ws[(w + i) % 3]);
			}
			TL = k;
			all_modes();
		}
	}
	else
	{
		for (int g = 0; g <= nt; g++)
			for (int w = 0; w < 3; w++)
			{
				size_t at = g < nt ? toks[g].start : bl;
				size_t wl = strlen(ws[w]);
				memcpy(T, base, at);
				memcpy(T + at, ws[w], wl);
				memcpy(T + at + wl, base + at, bl - at);
				TL = bl + wl;
				one((g + w) & 1, (g >> 1) & 1);
			}
	}
	memcpy(T, base, bl);
	TL = bl;
}
static void fam_structure(void)
{
	V *leaves[8];
	const char *keys[] = {"a", "b"};
	struct vfam f = {.width = 2, .leaves = leaves, .nleaves = 8, .keys = keys, .nkeys = 2, .dup_keys = 1};
	cur_fam = "structure-T22";
	vfam_init(&f, 2);
	for (uint64_t i = 0; i < f.count[2]; i++)
	{
		if (mc_deadline())
			return;
		va_reset();
		leaves[0] = v_null();
		leaves[1] = v_bool(1);
		leaves[2] = v_bool(0);
		leaves[3] = v_int(0, 0);
		leaves[4] = v_int(1, 1);
		leaves[5] = v_dbls(1.5, "1.5");
		leaves[6] = v_strz("");
		leaves[7] = v_strz("a");
		V *v = vfam_get(&f, 2, i);
		sb_reset(&txt);
		v_print(v, &txt);
		set_text(txt.p, txt.n);
		one((int)(i & 1), (int)((i >> 1) & 1));
		one((int)(~i & 1), (int)((~i >> 1) & 1));
		if (mc_tier)
			with_ws_deviations(0);
		else if (i < f.count[1])
			with_ws_deviations(0);
	}
	cur_fam = "structure-T13";
	struct vfam g = {.width = 3, .leaves = leaves, .nleaves = 8, .keys = keys, .nkeys = 2, .dup_keys = 1};
	vfam_init(&g, 1);
	for (uint64_t i = 0; i < g.count[1]; i++)
	{
		va_reset();
		leaves[0] = v_null();
		leaves[1] = v_bool(1);
		leaves[2] = v_bool(0);
		leaves[3] = v_int(0, 0);
		leaves[4] = v_int(1, 1);
		leaves[5] = v_dbls(1.5, "1.5");
		leaves[6] = v_strz("");
		leaves[7] = v_strz("a");
		V *v = vfam_get(&g, 1, i);
		sb_reset(&txt);
		v_print(v, &txt);
		set_text(txt.p, txt.n);
		all_modes();
		with_ws_deviations(1);
	}
	cur_fam = "nesting-chain";
	for (int depth = 1; depth <= 31; depth++)
		for (int pat = 0; pat < 3; pat++)
			for (int inner = 0; inner < 3; inner++)
			{
				sb_reset(&txt);
				for (int i = 0; i < depth; i++)
					sb_puts(&txt, (pat == 0 || (pat == 2 && (i & 1))) ? "[" : "{\"k\":");
				sb_puts(&txt, inner == 0 ? "1" : inner == 1 ? "\"\"" : "null");
				for (int i = depth - 1; i >= 0; i--)
					sb_puts(&txt, (pat == 0 || (pat == 2 && (i & 1))) ? "]" : "}");
				set_text(txt.p, txt.n);
				all_modes();
			}
	/* empty containers at the deepest allowed level (enclosure 31 = depth limit 32) */
	for (int pat = 0; pat < 2; pat++)
		for (int inner = 0; inner < 2; inner++)
		{
			sb_reset(&txt);
			for (int i = 0; i < 31; i++)
				sb_puts(&txt, pat ? "[" : "{\"k\":");
			sb_puts(&txt, inner ? "[]" : "{}");
			for (int i = 0; i < 31; i++)
				sb_puts(&txt, pat ? "]" : "}");
			set_text(txt.p, txt.n);
			all_modes();
		}
}

/* ---- family 4: raw UTF-8 ---- */
static void fam_utf8(void)
{
	cur_fam = "raw-utf8";
	static const unsigned cps[] = {0x20, 0x7e, 0x7f, 0x80, 0x7ff, 0x800, 0xd7ff, 0xe000, 0xfffd, 0xffff, 0x10000, 0x10ffff,
	                               0xe9, 0x20ac, 0x1f600};
	for (unsigned i = 0; i < sizeof cps / sizeof cps[0]; i++)
		for (unsigned j = 0; j < sizeof cps / sizeof cps[0]; j++)
		{
			sb_reset(&txt);
			sb_putc(&txt, '"');
			unsigned two[2] = {cps[i], cps[j]};
			for (int k = 0; k < 2; k++)
			{
				unsigned cp = two[k];
				if (cp < 0x80)
					sb_putc(&txt, (char)cp);
				else if (cp < 0x800)
				{
					sb_putc(&txt, (char)(0xC0 | (cp >> 6)));
					sb_putc(&txt, (char)(0x80 | (cp & 0x3F)));
				}
				else if (cp < 0x10000)
				{
					sb_putc(&txt, (char)(0xE0 | (cp >> 12)));
					sb_putc(&txt, (char)(0x80 | ((cp >> 6) & 0x3F)));
					sb_putc(&txt, (char)(0x80 | (cp & 0x3F)));
				}
				else
				{
					sb_putc(&txt, (char)(0xF0 | (cp >> 18)));
					sb_putc(&txt, (char)(0x80 | ((cp >> 12) & 0x3F)));
					sb_putc(&txt, (char)(0x80 | ((cp >> 6) & 0x3F)));
					sb_putc(&txt, (char)(0x80 | (cp & 0x3F)));
				}
			}
			sb_putc(&txt, '"');
			set_text(txt.p, txt.n);
			all_modes();
			/* as a member name too */
			memmove(T + 1, T, TL);
			T[0] = '{';
			memcpy(T + 1 + TL, ":1}", 3);
			TL += 4;
			all_modes();
		}
}

/* ---- family 5: long tokens crossing the scanner's buffer growth (32, 64, 128 bytes) ---- */
static void fam_long(void)
{
	cur_fam = "long-tokens";
	static const int lens[] = {30, 31, 32, 33, 62, 63, 64, 65, 127, 128, 129};
	static const char *ins[] = {"\\n", "\\u00e9", "\\ud83d\\ude00", "\xc3\xa9", "\\\\", "\\ud800"};
	for (unsigned l = 0; l < sizeof lens / sizeof lens[0]; l++)
		for (int pos = 0; pos <= lens[l]; pos += (lens[l] > 70 && pos > 2 && pos < lens[l] - 2) ? 7 : 1)
			for (unsigned k = 0; k < sizeof ins / sizeof ins[0]; k++)
			{
				sb_reset(&txt);
				sb_putc(&txt, '"');
				for (int i = 0; i < lens[l]; i++)
				{
					if (i == pos)
						sb_puts(&txt, ins[k]);
					sb_putc(&txt, (char)('a' + i % 26));
				}
				if (pos == lens[l])
					sb_puts(&txt, ins[k]);
				sb_putc(&txt, '"');
				set_text(txt.p, txt.n);
				one((int)(k & 1), (int)((pos + (int)k) & 1));
				/* the same as a member name with the string as its value too */
				memmove(T + 1, T, TL);
				T[0] = '{';
				T[1 + TL] = ':';
				memcpy(T + 2 + TL, T + 1, TL);
				T[2 + 2 * TL] = '}';
				TL = 3 + 2 * TL;
				one((int)(~k & 1), (int)((pos + (int)k + 1) & 1));
			}
	/* very long number tokens (beyond 255 bytes): many digits after the point, or a long integer part */
	static const int nlens[] = {200, 254, 255, 256, 257, 300, 511, 512, 513, 1100};
	for (unsigned l = 0; l < sizeof nlens / sizeof nlens[0]; l++)
		for (int form = 0; form < 3; form++)
		{
			sb_reset(&txt);
			if (form == 0)
			{
				/* 0.000...0ddd e+N : value depends on every digit position being kept */
				sb_puts(&txt, "0.");
				for (int i = 0; i < nlens[l] - 12; i++)
					sb_putc(&txt, '0');
				sb_printf(&txt, "12345e%d", nlens[l] - 10);
			}
			else if (form == 1)
			{
				sb_putc(&txt, '1');
				for (int i = 0; i < nlens[l] - 8; i++)
					sb_putc(&txt, '0');
				sb_printf(&txt, ".5e-%d", nlens[l] - 12);
			}
			else
			{
				sb_putc(&txt, '-');
				for (int i = 0; i < nlens[l] - 1; i++)
					sb_putc(&txt, (char)('1' + i % 9));
			}
			set_text(txt.p, txt.n);
			one(0, 0);
			one(1, 1);
			/* inside an array too */
			memmove(T + 1, T, TL);
			T[0] = '[';
			T[TL + 1] = ']';
			TL += 2;
			one(1, 0);
			one(0, 1);
		}
	/* several long strings in one text: the scanner's token buffer is reused (and regrown) across tokens */
	{
		static const int big[] = {3000, 4090, 5000, 9000, 12000, 20000};
		for (unsigned a = 0; a < 6; a++)
			for (unsigned b = 0; b < 6; b++)
				for (int shape = 0; shape < 3; shape++)
				{
					if (big[a] + big[b] > 30000)
						continue;
					sb_reset(&txt);
					sb_puts(&txt, shape == 0 ? "[\"" : shape == 1 ? "{\"" : "\"");
					for (int i = 0; i < big[a]; i++)
						sb_putc(&txt, (char)('a' + i % 26));
					sb_puts(&txt, shape == 0 ? "\",\"" : shape == 1 ? "\":\"" : "\\n");
					for (int i = 0; i < big[b]; i++)
						sb_putc(&txt, (char)('A' + i % 25));
					sb_puts(&txt, shape == 0 ? "\"]" : shape == 1 ? "\"}" : "\"");
					set_text(txt.p, txt.n);
					one((int)(a & 1), (int)(b & 1));
					one((int)(~a & 1), (int)(~b & 1));
				}
	}
	/* long numbers */
	for (int digits = 17; digits <= 70; digits += (digits < 24 ? 1 : 9))
		for (int form = 0; form < 4; form++)
		{
			sb_reset(&txt);
			if (form & 1)
				sb_putc(&txt, '-');
			for (int i = 0; i < digits; i++)
				sb_putc(&txt, (char)('1' + i % 9));
			if (form & 2)
			{
				sb_putc(&txt, '.');
				for (int i = 0; i < digits; i++)
					sb_putc(&txt, (char)('0' + (i * 7) % 10));
				sb_puts(&txt, "e-5");
			}
			set_text(txt.p, txt.n);
			number_contexts(sb_str(&txt));
		}
}

/* ---- family 6: wide containers (array and table growth inside the parser) ---- */
static void fam_wide(void)
{
	cur_fam = "wide-containers";
	static const int counts[] = {11, 12, 22, 32, 33, 43, 65, 129, 300};
	for (unsigned c = 0; c < sizeof counts / sizeof counts[0]; c++)
		for (int kind = 0; kind < 3; kind++)
		{
			int n = counts[c];
			sb_reset(&txt);
			sb_putc(&txt, kind ? '{' : '[');
			for (int i = 0; i < n; i++)
			{
				if (i)
					sb_puts(&txt, i % 3 ? "," : " ,\n");
				if (kind)
					/* kind 2: every 7th name repeats an earlier one (last value wins, first position kept) */
					sb_printf(&txt, "\"k%d\":", (kind == 2 && i % 7 == 6) ? i / 2 : i);
				if (i % 5 == 0)
					sb_printf(&txt, "\"v%d\\n\"", i);
				else if (i % 5 == 1)
					sb_printf(&txt, "%d.5e%d", i, i % 9);
				else if (i % 5 == 2)
					sb_puts(&txt, "[null,{}]");
				else
					sb_printf(&txt, "%d", i * 1000003);
			}
			sb_putc(&txt, kind ? '}' : ']');
			set_text(txt.p, txt.n);
			all_modes();
		}
}

static void enumerate(void)
{
	const char *only = mc_opt("fam", "");
	if (!*only || !strcmp(only, "wide"))
		fam_wide();
	if (!*only || !strcmp(only, "long"))
		fam_long();
	if (!*only || !strcmp(only, "escapes"))
		fam_escapes();
	if (!*only || !strcmp(only, "numbers"))
		fam_numbers();
	if (!*only || !strcmp(only, "utf8"))
		fam_utf8();
	if (!*only || !strcmp(only, "structure"))
		fam_structure();
}

static int replay(const char *desc)
{
	long s = 0, d = 0;
	mc_desc_int(desc, "strict", &s);
	mc_desc_int(desc, "deliv", &d);
	if (!mc_desc_hex(desc, "text", T, sizeof T, &TL))
		return -1;
	cur_fam = "replay";
	int v = one((int)s, (int)d);
	printf("text=%.*s strict=%ld deliv=%ld -> %d violation(s); got %s\n", (int)TL, T, s, d, v, sb_str(&d_got));
	return v;
}

int main(int argc, char **argv)
{
	struct mc_harness h = {"c01", enumerate, describe, replay};
	return mc_main(argc, argv, &h);
}
