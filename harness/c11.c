/* C11 - string nodes are length-counted byte sequences through any mutation history.
 * Finite state space (creation length, representation, length, content pattern)
 * explored to a fix-point; every allocating set also with its allocation failed. */
#include "mc.h"
#include "json.h"
#include "json_object_private.h"
#include <errno.h>
#include <limits.h>
#include <stdlib.h>
#include <string.h>

static const int L0s[] = {0, 1, 7, 8, 9, 31, 32, 33, 100, 255, 256, 65536};
#define NL0 (mc_tier ? 12 : 10)
static const int Ns[] = {0, 1, 7, 8, 9, 15, 16, 17, 40, 100, 255, 256, 257, 65535, 65536, 70000};
#define NN (mc_tier ? 16 : 12)
#define NPAT 4

static unsigned char pat_byte(int p, int i)
{
	switch (p)
	{
	case 0: return (unsigned char)('A' + i % 26);
	case 1: return i % 3 == 1 ? 0 : i % 3 == 2 ? 0xFF : 'z';
	case 2: return (unsigned char)(0x80 + i % 64);
	/* agrees with pattern 1 up to and including its first NUL, differs after it */
	default: return i == 0 ? 'z' : i == 1 ? 0 : (unsigned char)('q' + i % 5);
	}
}
static void fill(unsigned char *b, int p, int n)
{
	for (int i = 0; i < n; i++)
		b[i] = pat_byte(p, i);
}

struct st
{
	struct json_object *o;
	unsigned char m[70016];
	int len;
	int pat; /* pattern id of the contents (for the key) */
	int L0;
	int dead;
	int ser; /* the node has been serialized at least once (it now owns a cached print buffer) */
};
enum
{
	K_CREATE,
	K_SET_LEN,
	K_SET_LEN_FAIL,
	K_SET_Z,
	K_SET_Z_FAIL,
	K_REFUSED,
	K_SERIALIZE /* observation with a side effect: the node keeps the print buffer it used */
};
static void opname(int op, sb_t *o)
{
	int kind = op >> 8, a = op & 255;
	switch (kind)
	{
	case K_CREATE: sb_printf(o, "new_string_len(pattern %d, %d bytes)", a / NL0, L0s[a % NL0]); break;
	case K_SET_LEN: sb_printf(o, "set_string_len(pattern %d, %d)", a / NN, Ns[a % NN]); break;
	case K_SET_LEN_FAIL: sb_printf(o, "set_string_len(pattern %d, %d) with its allocation failing", a / NN, Ns[a % NN]); break;
	case K_SET_Z: sb_printf(o, "set_string(\"abc\\0...\"#%d)", a); break;
	case K_SET_Z_FAIL: sb_printf(o, "set_string(#%d) with its allocation failing", a); break;
	case K_REFUSED: sb_printf(o, "set_string_len(refused length #%d)", a); break;
	case K_SERIALIZE: sb_puts(o, "to_json_string"); break;
	}
}
static void *fresh(void)
{
	return calloc(1, sizeof(struct st));
}
static void fail(struct st *s, const char *sig, const char *fmt, ...)
{
	char msg[600];
	va_list ap;
	va_start(ap, fmt);
	vsnprintf(msg, sizeof msg, fmt, ap);
	va_end(ap);
	mc_violation(sig, "%s", msg);
	s->dead = 1;
}
static void compare(struct st *s, const char *what)
{
	struct json_object *o = s->o;
	int gl = json_object_get_string_len(o);
	if (gl != s->len)
	{
		fail(s, "length-differs-from-model", "%s: get_string_len %d, model %d", what, gl, s->len);
		return;
	}
	const char *g = json_object_get_string(o);
	if (memcmp(g, s->m, (size_t)s->len))
	{
		int k = 0;
		while ((unsigned char)g[k] == s->m[k])
			k++;
		fail(s, "bytes-differ-from-model", "%s: byte %d is 0x%02x, model 0x%02x (length %d)", what, k, (unsigned char)g[k], s->m[k], s->len);
		return;
	}
	if (g[s->len] != 0)
	{
		fail(s, "not-terminated", "%s: byte after the contents is 0x%02x", what, (unsigned char)g[s->len]);
		return;
	}
	/* equality uses all the bytes */
	struct json_object *same = json_object_new_string_len((const char *)s->m, s->len);
	if (!json_object_equal(o, same) || !json_object_equal(same, o))
		fail(s, "equal-disagrees", "%s: not equal to a fresh node with the same %d bytes", what, s->len);
	json_object_put(same);
	if (s->len > 0 && !s->dead)
	{
		static unsigned char tmp[70016];
		memcpy(tmp, s->m, (size_t)s->len);
		tmp[s->len - 1] ^= 0x01;
		struct json_object *diff = json_object_new_string_len((const char *)tmp, s->len);
		if (json_object_equal(o, diff) || json_object_equal(diff, o))
			fail(s, "equal-ignores-bytes", "%s: equal to a node differing in its last byte (of %d)", what, s->len);
		json_object_put(diff);
		struct json_object *shorter = json_object_new_string_len((const char *)s->m, s->len - 1);
		if (!s->dead && (json_object_equal(o, shorter) || json_object_equal(shorter, o)))
			fail(s, "equal-ignores-length", "%s: equal to its own prefix of length %d", what, s->len - 1);
		json_object_put(shorter);
	}
	if (s->dead)
		return;
	/* deep copy keeps all bytes */
	struct json_object *cp = NULL;
	if (json_object_deep_copy(o, &cp, NULL) != 0 || !cp)
		fail(s, "deep-copy-failed", "%s: deep copy failed", what);
	else
	{
		if (json_object_get_string_len(cp) != s->len || memcmp(json_object_get_string(cp), s->m, (size_t)s->len) ||
		    json_object_get_string(cp)[s->len] != 0)
			fail(s, "deep-copy-differs", "%s: the deep copy does not hold the same %d bytes", what, s->len);
		json_object_put(cp);
	}
	if (s->dead)
		return;
	/* serialization uses all the bytes, under every flag set: read it back with the reference reader
	 * (colour escapes ESC [ ... m removed first) */
	static const int fl[] = {JSON_C_TO_STRING_PLAIN, JSON_C_TO_STRING_COLOR, JSON_C_TO_STRING_PRETTY | JSON_C_TO_STRING_COLOR, JSON_C_TO_STRING_NOSLASHESCAPE,
	                         JSON_C_TO_STRING_SPACED | JSON_C_TO_STRING_PRETTY_TAB};
	for (unsigned f = 0; f < sizeof fl / sizeof fl[0] && !s->dead; f++)
	{
		size_t tl = 0;
		const char *t = json_object_to_json_string_length(o, fl[f], &tl);
		if (!t)
		{
			fail(s, "serialize-null", "%s: serialization (flags %d) returned NULL", what, fl[f]);
			continue;
		}
		static unsigned char plain[70016 * 6 + 256];
		size_t pl = 0;
		for (size_t i = 0; i < tl && pl < sizeof plain; i++)
		{
			if (t[i] == 0x1b && i + 1 < tl && t[i + 1] == '[')
			{
				while (i < tl && t[i] != 'm')
					i++;
				continue;
			}
			plain[pl++] = (unsigned char)t[i];
		}
		va_reset();
		struct rr_result rr;
		rr_parse(plain, pl, NULL, &rr);
		if (rr.status != RR_OK || rr.value->k != V_STR || rr.value->slen != (size_t)s->len || memcmp(rr.value->s, s->m, (size_t)s->len))
			fail(s, "serialization-differs", "%s: the text serialized with flags %d, %.80s, does not denote the %d model bytes", what, fl[f], t, s->len);
	}
}
static void apply(void *vs, int op, int check)
{
	struct st *s = vs;
	if (s->dead)
		return;
	int kind = op >> 8, a = op & 255;
	char what[96];
	sb_t w;
	sb_init_fixed(&w, what, sizeof what);
	opname(op, &w);
	static unsigned char src[70016];
	MC_COUNT("calls", 1);
	switch (kind)
	{
	case K_CREATE:
	{
		int p = a / NL0, n = L0s[a % NL0];
		fill(src, p, n);
		s->o = json_object_new_string_len((const char *)src, n);
		if (!s->o)
		{
			fail(s, "constructor-failed", "%s returned NULL", what);
			return;
		}
		memcpy(s->m, src, (size_t)n);
		s->len = n;
		s->pat = p;
		s->L0 = n;
		break;
	}
	case K_SET_LEN:
	case K_SET_LEN_FAIL:
	{
		int p = a / NN, n = Ns[a % NN];
		fill(src, p, n);
		long calls0 = vf_alloc_calls();
		if (kind == K_SET_LEN_FAIL)
			vf_fail_plan(calls0 + 1, 0);
		int rc = json_object_set_string_len(s->o, (const char *)src, n);
		int fired = vf_fail_fired();
		vf_fail_plan(0, 0);
		if (kind == K_SET_LEN_FAIL && fired)
		{
			/* the set needed an allocation and it failed: previous contents must be intact */
			if (check && rc != 0)
				fail(s, "failed-set-reports-success", "%s returned %d although its allocation failed", what, rc);
			break;
		}
		if (rc != 1)
		{
			fail(s, "set-failed", "%s returned %d", what, rc);
			return;
		}
		memcpy(s->m, src, (size_t)n);
		s->len = n;
		s->pat = p;
		break;
	}
	case K_SET_Z:
	case K_SET_Z_FAIL:
	{
		/* strlen-based setter: contents end at the first NUL of the argument */
		static const char *zs[] = {"abc\0def", "", "0123456789abcdefXYZ\0Q"};
		long calls0 = vf_alloc_calls();
		if (kind == K_SET_Z_FAIL)
			vf_fail_plan(calls0 + 1, 0);
		int rc = json_object_set_string(s->o, zs[a]);
		int fired = vf_fail_fired();
		vf_fail_plan(0, 0);
		if (kind == K_SET_Z_FAIL && fired)
		{
			if (check && rc != 0)
				fail(s, "failed-set-reports-success", "%s returned %d although its allocation failed", what, rc);
			break;
		}
		if (rc != 1)
		{
			fail(s, "set-failed", "%s returned %d", what, rc);
			return;
		}
		s->len = (int)strlen(zs[a]);
		memcpy(s->m, zs[a], (size_t)s->len);
		s->pat = 10 + a;
		break;
	}
	case K_REFUSED:
	{
		static const int bad[] = {INT_MAX - 1, INT_MAX, -1, -100, INT_MIN, 1 << 29 /* passes the length guard, refused by the allocator */};
		int rc = json_object_set_string_len(s->o, "x", bad[a]);
		if (rc != 0)
		{
			fail(s, "refused-length-accepted", "%s (length %d) returned %d", what, bad[a], rc);
			return;
		}
		break;
	}
	case K_SERIALIZE:
		(void)json_object_to_json_string_ext(s->o, JSON_C_TO_STRING_PLAIN);
		s->ser = 1;
		break;
	}
	if (check && !s->dead)
		compare(s, what);
}
static int menu(void *vs, int *ops, int cap)
{
	struct st *s = vs;
	int n = 0;
	(void)cap;
	if (s->dead)
		return 0;
	if (!s->o)
	{
		for (int a = 0; a < NPAT * NL0; a++)
			ops[n++] = (K_CREATE << 8) | a;
		return n;
	}
	for (int a = 0; a < NPAT * NN; a++)
	{
		ops[n++] = (K_SET_LEN << 8) | a;
		ops[n++] = (K_SET_LEN_FAIL << 8) | a;
	}
	for (int a = 0; a < 3; a++)
	{
		ops[n++] = (K_SET_Z << 8) | a;
		ops[n++] = (K_SET_Z_FAIL << 8) | a;
	}
	for (int a = 0; a < 6; a++)
		ops[n++] = (K_REFUSED << 8) | a;
	if (!s->ser)
		ops[n++] = K_SERIALIZE << 8;
	return n;
}
static uint64_t key(void *vs)
{
	struct st *s = vs;
	int k[7] = {s->dead, s->o ? 1 : 0, s->L0, s->len, s->pat, 0, s->ser};
	if (s->o)
		k[5] = ((struct json_object_string *)s->o)->len < 0;
	return mc_hash(k, sizeof k, 29);
}
static void destroy(void *vs, int check)
{
	struct st *s = vs;
	if (s->o)
	{
		int rc = json_object_put(s->o);
		if (check && rc != 1)
			mc_violation("not-freed", "json_object_put returned %d", rc);
	}
	free(s);
	if (vf_live())
	{
		if (check)
			mc_violation("leak", "%ld blocks (%ld bytes) live after releasing the string", vf_live(), vf_live_bytes());
		mc_restart_worker();
	}
}
static const struct bfs_cb cb = {fresh, apply, menu, key, destroy, opname};
static void describe(sb_t *o)
{
	bfs_describe(&cb, o);
}
static void enumerate(void)
{
	struct bfs_stats st;
	bfs_run(&cb, BFS_MAXD, 1000000, &st);
	MC_COUNT("states", st.states);
	MC_COUNT("transitions", st.transitions);
	MC_MAX("depth_to_fixpoint", st.max_depth_done);
	/* creation through the parser holds the bytes too */
	static const char *texts[] = {"\"\"", "\"a\"", "\"a\\u0000b\"", "\"\\u0000\"", "\"1234567\"", "\"12345678\"", "\"123456789\"",
	                              "\"0123456789012345678901234567890123456789\"", "\"\xff\xfe\"", "\"x\\u0000\\u0000\""};
	for (unsigned i = 0; i < sizeof texts / sizeof texts[0]; i++)
	{
		bfs_cur_n = 0;
		if (!mc_case_begin())
			continue;
		va_reset();
		struct rr_result rr;
		rr_parse((const unsigned char *)texts[i], strlen(texts[i]), NULL, &rr);
		struct json_object *o = json_tokener_parse(texts[i]);
		if (!o || json_object_get_string_len(o) != (int)rr.value->slen || memcmp(json_object_get_string(o), rr.value->s, rr.value->slen))
			mc_violation("parsed-string-differs", "parsing %s does not give the %zu denoted bytes", texts[i], rr.value->slen);
		json_object_put(o);
	}
}
static int replay(const char *desc)
{
	bfs_replay(&cb, desc);
	return (int)mc_violations();
}
int main(int argc, char **argv)
{
	struct mc_harness h = {"c11", enumerate, describe, replay};
	return mc_main(argc, argv, &h);
}
