/* C12 - JSON Pointer get/set resolve exactly per RFC 6901.
 * Adversarial-key trees x every short pointer string (+ the escaped pointer of every
 * node) x get/getf/set/setf; oracle = RFC 6901 evaluator over the value model. */
#include "mc.h"
#include "json.h"
#include <errno.h>
#include <stdlib.h>
#include <string.h>

static const char *K12[] = {"", "a", "/", "~", "~0", "~1", "a/b", "m~n", "0", "01", "-", "1"};
#define NK12 12

static V *cur_tree;
static char cur_ptr[1024];
static const char *cur_op = "get";
static int cur_val;
static void describe(sb_t *o)
{
	static char docbuf[4096];
	sb_t doc;
	sb_init_fixed(&doc, docbuf, sizeof docbuf);
	if (cur_tree)
		v_print(cur_tree, &doc);
	sb_printf(o, "op=%s val=%d ptr=", cur_op, cur_val);
	sb_hex(o, cur_ptr, strlen(cur_ptr));
	sb_puts(o, " doc=");
	sb_hex(o, doc.p, doc.n);
	sb_printf(o, " pointer=\"%s\" tree=%s", cur_ptr, docbuf);
}

/* ---------- RFC 6901 reference ---------- */
enum
{
	RP_OK,
	RP_FAIL,
	RP_UNSPEC /* syntactically invalid escape: the statement does not fix lenient handling */
};
struct rpath
{
	int n;
	int idx[16]; /* child index at each step */
};
static int unescape_token(const char *t, size_t n, char *out, size_t *outn)
{
	size_t k = 0;
	for (size_t i = 0; i < n; i++)
	{
		if (t[i] == '~')
		{
			if (i + 1 < n && t[i + 1] == '1')
			{
				out[k++] = '/';
				i++;
			}
			else if (i + 1 < n && t[i + 1] == '0')
			{
				out[k++] = '~';
				i++;
			}
			else
				return 0;
		}
		else
			out[k++] = t[i];
	}
	out[k] = 0;
	*outn = k;
	return 1;
}
static int canonical_index(const char *t, size_t n, size_t *idx)
{
	if (n == 0 || n > 9)
		return 0;
	if (t[0] == '0' && n > 1)
		return 0;
	size_t v = 0;
	for (size_t i = 0; i < n; i++)
	{
		if (t[i] < '0' || t[i] > '9')
			return 0;
		v = v * 10 + (size_t)(t[i] - '0');
	}
	*idx = v;
	return 1;
}
/* evaluates ptr[0..plen) on v */
static int ref_eval(V *v, const char *ptr, size_t plen, V **node, struct rpath *rp)
{
	rp->n = 0;
	*node = v;
	if (plen == 0)
		return RP_OK;
	if (ptr[0] != '/')
		return RP_FAIL;
	size_t i = 1;
	for (;;)
	{
		size_t s = i;
		while (i < plen && ptr[i] != '/')
			i++;
		const char *tok = ptr + s;
		size_t tl = i - s;
		V *cur = *node;
		if (cur->k == V_OBJ)
		{
			char key[1024];
			size_t kl;
			if (!unescape_token(tok, tl, key, &kl))
				return RP_UNSPEC;
			size_t m;
			for (m = 0; m < cur->n; m++)
				if (cur->klens[m] == kl && !memcmp(cur->keys[m], key, kl))
					break;
			if (m == cur->n)
				return RP_FAIL;
			rp->idx[rp->n++] = (int)m;
			*node = cur->items[m];
		}
		else if (cur->k == V_ARR)
		{
			size_t idx;
			if (!canonical_index(tok, tl, &idx) || idx >= cur->n)
				return RP_FAIL;
			rp->idx[rp->n++] = (int)idx;
			*node = cur->items[idx];
		}
		else
			return RP_FAIL;
		if (i >= plen)
			return RP_OK;
		i++; /* skip '/' */
	}
}
/* walks the json-c tree along a reference path using only get_ex / get_idx */
static struct json_object *walk(struct json_object *o, V *v, const struct rpath *rp)
{
	for (int s = 0; s < rp->n; s++)
	{
		if (v->k == V_OBJ)
		{
			struct json_object *c = NULL;
			json_object_object_get_ex(o, (const char *)v->keys[rp->idx[s]], &c);
			o = c;
		}
		else
			o = json_object_array_get_idx(o, (size_t)rp->idx[s]);
		v = v->items[rp->idx[s]];
	}
	return o;
}

static sb_t d_before, d_after, d_exp;

static void check_get(struct json_object *o, V *v, int use_f, int check_unchanged)
{
	V *node;
	struct rpath rp;
	int want = ref_eval(v, cur_ptr, strlen(cur_ptr), &node, &rp);
	struct json_object *res = (struct json_object *)(uintptr_t)0x1234;
	errno = mc_errno_pre;
	MC_COUNT("calls", 1);
	int rc = use_f ? json_pointer_getf(o, &res, "%s", cur_ptr) : json_pointer_get(o, cur_ptr, &res);
	int e = errno;
	if (want == RP_UNSPEC || !o)
	{
		/* invalid escape, or a NULL root: the API treats a NULL object argument as EINVAL */
		MC_COUNT("unspecified_cases", 1);
		return;
	}
	if (want == RP_OK)
	{
		if (rc != 0)
		{
			const char *sig = "get-fails-on-resolvable-pointer";
			if (node->k == V_NULL && rp.n > 0)
				sig = "get-null-target-not-found";
			mc_violation(sig, "RFC 6901 evaluation succeeds but %s returned %d (errno %d)", cur_op, rc, e);
		}
		else
		{
			struct json_object *expect = walk(o, v, &rp);
			if (res != expect)
				mc_violation("get-returns-other-node", "%s returned %p, the node reached by walking the tokens is %p", cur_op, (void *)res, (void *)expect);
		}
	}
	else
	{
		if (rc == 0)
		{
			const char *sig = "get-succeeds-on-unresolvable-pointer";
			mc_violation(sig, "RFC 6901 evaluation fails but %s returned 0", cur_op);
		}
		else if (e != ENOENT && e != EINVAL)
			mc_violation("get-failure-errno", "%s failed with errno %d (expected ENOENT or EINVAL)", cur_op, e);
	}
	if (check_unchanged)
	{
		sb_reset(&d_after);
		vf_dump(o, &d_after, 0);
		if (strcmp(sb_str(&d_before), sb_str(&d_after)))
			mc_violation("get-has-side-effect", "tree dump changed by a lookup: %.150s -> %.150s", sb_str(&d_before), sb_str(&d_after));
	}
	mc_outcome(mc_hash(cur_ptr, strlen(cur_ptr), (uint64_t)rc + 3) ^ (uint64_t)want);
}

/* reference set; returns RP_*; on success *out is the new tree */
static int ref_set(V *v, const char *ptr, V *val, V **out)
{
	size_t plen = strlen(ptr);
	if (plen == 0)
	{
		*out = val;
		return RP_OK;
	}
	if (ptr[0] != '/')
		return RP_FAIL;
	const char *last = strrchr(ptr, '/');
	V *copy = v_clone(v);
	V *parent;
	struct rpath rp;
	int st = ref_eval(copy, ptr, (size_t)(last - ptr), &parent, &rp);
	if (st != RP_OK)
		return st;
	const char *tok = last + 1;
	size_t tl = strlen(tok);
	if (parent->k == V_OBJ)
	{
		char key[1024];
		size_t kl;
		if (!unescape_token(tok, tl, key, &kl))
			return RP_UNSPEC;
		v_obj_put(parent, key, kl, val);
	}
	else if (parent->k == V_ARR)
	{
		size_t idx;
		if (tl == 1 && tok[0] == '-')
			v_arr_push(parent, val);
		else if (!canonical_index(tok, tl, &idx))
			return RP_FAIL;
		else if (idx < parent->n)
			parent->items[idx] = val;
		else
		{
			/* beyond the end: RFC 6901 does not define it; json-c arrays extend with nulls (C07) */
			while (parent->n < idx)
				v_arr_push(parent, v_null());
			v_arr_push(parent, val);
		}
	}
	else
		return RP_FAIL;
	*out = copy;
	return RP_OK;
}
static int huge_last_index(const char *ptr, V *v)
{
	(void)v;
	const char *last = strrchr(ptr, '/');
	if (!last)
		return 0;
	size_t idx;
	return canonical_index(last + 1, strlen(last + 1), &idx) && idx > 16;
}
static int val_destroyed;
static void val_deleted(struct json_object *o, void *ud)
{
	(void)o;
	(void)ud;
	val_destroyed++;
}
static void check_set(V *v, int valkind, int use_f)
{
	if (huge_last_index(cur_ptr, v))
		return;
	long live0 = vf_live();
	struct json_object *o = v_build(v);
	struct json_object *val = NULL;
	V *mval;
	if (valkind == 0)
	{
		val = json_object_new_int(7);
		mval = v_int(0, 7);
	}
	else if (valkind == 1)
		mval = v_null();
	else
	{
		val = json_object_new_array();
		json_object_array_add(val, json_object_new_string("n"));
		mval = v_arr(1);
		mval->items[0] = v_strz("n");
	}
	val_destroyed = 0;
	if (val)
		json_object_set_userdata(val, NULL, val_deleted);
	sb_reset(&d_before);
	vf_dump(o, &d_before, 0);
	V *expect = NULL;
	int want = ref_set(v, cur_ptr, mval, &expect);
	errno = mc_errno_pre;
	MC_COUNT("calls", 1);
	int rc = use_f ? json_pointer_setf(&o, val, "%s", cur_ptr) : json_pointer_set(&o, cur_ptr, val);
	int e = errno;
	(void)e;
	sb_reset(&d_after);
	vf_dump(o, &d_after, 0);
	if (want == RP_UNSPEC)
	{
		MC_COUNT("unspecified_escape_cases", 1);
		if (rc != 0 && val)
			json_object_put(val);
	}
	else if (want == RP_OK)
	{
		if (rc != 0)
		{
			mc_violation("set-fails-on-resolvable-location", "RFC 6901 resolves the parent but %s returned %d (errno %d)", cur_op, rc, e);
			if (strcmp(sb_str(&d_before), sb_str(&d_after)))
				mc_violation("failed-set-changed-tree", "a failed %s changed the tree: %.150s -> %.150s", cur_op, sb_str(&d_before), sb_str(&d_after));
			if (val)
				json_object_put(val);
		}
		else
		{
			sb_reset(&d_exp);
			v_dump(expect, &d_exp, 0);
			if (strcmp(sb_str(&d_exp), sb_str(&d_after)))
			{
				const char *sig = "set-result-differs";
				const char *last = strrchr(cur_ptr, '/');
				if (last && strchr(last, '~'))
					sig = "set-last-token-not-unescaped";
				mc_violation(sig, "after %s the tree is %.200s, RFC 6901 placement gives %.200s", cur_op, sb_str(&d_after), sb_str(&d_exp));
			}
			else if (cur_ptr[0] && strcmp(strrchr(cur_ptr, '/'), "/-") != 0)
			{
				/* a following lookup of the same pointer returns the value just set */
				struct json_object *back = (void *)(uintptr_t)0x55;
				int grc = json_pointer_get(o, cur_ptr, &back);
				if (grc != 0 || back != val)
					mc_violation(val ? "get-after-set-differs" : "get-null-target-not-found", "get of the pointer just set returned rc %d node %p (value %p)", grc, (void *)back, (void *)val);
			}
			if (val && val_destroyed)
				mc_violation("set-value-destroyed-early", "the value was destroyed although it is now part of the tree");
		}
	}
	else
	{
		if (rc == 0)
		{
			mc_violation("set-succeeds-on-unresolvable-location", "RFC 6901 cannot resolve the location but %s returned 0; tree now %.200s", cur_op, sb_str(&d_after));
		}
		else
		{
			if (strcmp(sb_str(&d_before), sb_str(&d_after)))
				mc_violation("failed-set-changed-tree", "a failed %s changed the tree: %.150s -> %.150s", cur_op, sb_str(&d_before), sb_str(&d_after));
			if (val)
			{
				if (val_destroyed)
					mc_violation("failed-set-consumed-value", "the set failed but the value was destroyed");
				else
					json_object_put(val); /* the caller still owns it */
			}
		}
	}
	json_object_put(o);
	if (vf_live() != live0)
	{
		mc_violation(rc == 0 ? "leak-after-set" : "leak-after-failed-set", "%ld blocks live after releasing the tree (rc=%d)", vf_live() - live0, rc);
		mc_restart_worker();
	}
	mc_outcome(mc_hash(d_after.p, d_after.n, (uint64_t)rc));
}

/* ---------- pointer strings ---------- */
static char PSTR[12000][8];
static int NPS[8]; /* NPS[l] = number of strings of length <= l */
static void gen_strings(void)
{
	static const char alpha[] = "/~01a-";
	int n = 0;
	PSTR[n++][0] = 0;
	NPS[0] = n;
	for (int len = 1; len <= 5; len++)
	{
		int total = 1;
		for (int k = 0; k < len; k++)
			total *= 6;
		for (int x = 0; x < total; x++)
		{
			int y = x;
			for (int k = 0; k < len; k++)
			{
				PSTR[n][k] = alpha[y % 6];
				y /= 6;
			}
			PSTR[n][len] = 0;
			n++;
		}
		NPS[len] = n;
	}
}
static void escape_key(const unsigned char *k, size_t kl, sb_t *out)
{
	for (size_t i = 0; i < kl; i++)
	{
		if (k[i] == '~')
			sb_puts(out, "~0");
		else if (k[i] == '/')
			sb_puts(out, "~1");
		else
			sb_putc(out, (char)k[i]);
	}
}
static char NODEPTR[64][1024];
static int n_nodeptr;
static void node_pointers(V *v, sb_t *prefix)
{
	if (n_nodeptr < 64)
		snprintf(NODEPTR[n_nodeptr++], 1024, "%s", sb_str(prefix));
	size_t keep = prefix->n;
	if (v->k == V_ARR)
		for (size_t i = 0; i < v->n; i++)
		{
			sb_printf(prefix, "/%zu", i);
			node_pointers(v->items[i], prefix);
			prefix->n = keep;
			prefix->p[keep] = 0;
		}
	else if (v->k == V_OBJ)
		for (size_t i = 0; i < v->n; i++)
		{
			sb_putc(prefix, '/');
			escape_key(v->keys[i], v->klens[i], prefix);
			node_pointers(v->items[i], prefix);
			prefix->n = keep;
			prefix->p[keep] = 0;
		}
}

static void one_tree(V *v, int get_len, int set_len, int with_f)
{
	cur_tree = v;
	if (!mc_case_begin())
		return;
	long live0 = vf_live();
	struct json_object *o = v_build(v);
	sb_reset(&d_before);
	vf_dump(o, &d_before, 0);
	sb_t pre = {0};
	sb_puts(&pre, "");
	n_nodeptr = 0;
	node_pointers(v, &pre);
	sb_free(&pre);
	/* get */
	cur_val = -1;
	for (int f = 0; f <= with_f; f++)
	{
		cur_op = f ? "getf" : "get";
		for (int i = 0; i < n_nodeptr; i++)
		{
			strcpy(cur_ptr, NODEPTR[i]);
			check_get(o, v, f, 1);
		}
		for (int i = 0; i < NPS[get_len]; i++)
		{
			strcpy(cur_ptr, PSTR[i]);
			check_get(o, v, f, (i & 63) == 0);
		}
		/* index tokens beyond 32 and 64 bits: never a valid position, must not wrap */
		static const char *bigidx[] = {"/4294967296", "/4294967297", "/18446744073709551616", "/18446744073709551617", "/0/4294967296", "/a/4294967297",
		                               "/99999999999999999999999", "/4294967295", "/2147483648"};
		for (unsigned i = 0; i < sizeof bigidx / sizeof bigidx[0]; i++)
		{
			strcpy(cur_ptr, bigidx[i]);
			check_get(o, v, f, 1);
		}
	}
	/* split printf-style form on two-token pointers to array elements */
	{
		struct json_object *res;
		cur_op = "getf(/%s/%d)";
		for (int k = 0; k < NK12; k++)
			for (int idx = 0; idx < 3; idx++)
			{
				sb_t p = {0};
				sb_putc(&p, '/');
				escape_key((const unsigned char *)K12[k], strlen(K12[k]), &p);
				sb_printf(&p, "/%d", idx);
				snprintf(cur_ptr, sizeof cur_ptr, "%s", sb_str(&p));
				char esc[32];
				snprintf(esc, sizeof esc, "%.*s", (int)(strrchr(cur_ptr, '/') - cur_ptr - 1), cur_ptr + 1);
				struct json_object *r1 = NULL, *r2 = NULL;
				int rc1 = json_pointer_get(o, cur_ptr, &r1);
				int rc2 = json_pointer_getf(o, &r2, "/%s/%d", esc, idx);
				if (rc1 != rc2 || (rc1 == 0 && r1 != r2))
					mc_violation("getf-differs-from-get", "getf(\"/%%s/%%d\") gives rc %d node %p, get on the formatted string gives rc %d node %p", rc2, (void *)r2, rc1, (void *)r1);
				sb_free(&p);
				(void)res;
			}
	}
	json_object_put(o);
	if (vf_live() != live0)
	{
		mc_violation("leak-after-get", "%ld blocks live after lookups and release", vf_live() - live0);
		mc_restart_worker();
	}
	/* set */
	for (int f = 0; f <= with_f; f++)
	{
		cur_op = f ? "setf" : "set";
		for (int val = 0; val < 3; val++)
		{
			cur_val = val;
			for (int i = 0; i < n_nodeptr; i++)
			{
				strcpy(cur_ptr, NODEPTR[i]);
				check_set(v, val, f);
				/* one step beyond each node: new key, append, index len / len+1 */
				static const char *beyond[] = {"/new", "/-", "/0", "/1", "/2", "/3", "/~1x", "/~0", "/"};
				for (unsigned b = 0; b < sizeof beyond / sizeof beyond[0]; b++)
				{
					snprintf(cur_ptr, sizeof cur_ptr, "%s%s", NODEPTR[i], beyond[b]);
					check_set(v, val, f);
				}
			}
			if (val < 2)
				for (int i = 0; i < NPS[set_len]; i++)
				{
					strcpy(cur_ptr, PSTR[i]);
					check_set(v, val, f);
				}
		}
	}
	sb_t d = {0};
	v_dump(v, &d, 0);
	if (v->k == V_ARR || v->k == V_OBJ)
		mc_nontrivial(mc_hash(d.p, d.n, 0));
	sb_free(&d);
	strcpy(cur_ptr, "");
	mc_sample_current();
}

static V *mk_leaves[3];
static void make_leaves(void)
{
	mk_leaves[0] = v_int(0, 1);
	mk_leaves[1] = v_null();
	mk_leaves[2] = v_strz("s");
}

/* ---- the printf-style variants with a literal '%' in the path: "%%" in the format stands for one
 * '%' (documented printf behaviour), with and without a real conversion next to it ---- */
static void fam_percent(void)
{
	static const char *doc = "{\"c%d\":1,\"100%\":[1,{\"%\":2}],\"%\":{\"%%\":null,\"%s\":[]},\"a\":3}";
	static const char *ptrs[] = {"/c%d", "/100%", "/100%/0", "/100%/1/%", "/100%/-", "/100%/2", "/%", "/%/%%", "/%/%s", "/%/%s/0", "/%/x%", "/a", "/a%", "/c%%d", "/%%", ""};
	for (unsigned pi = 0; pi < sizeof ptrs / sizeof ptrs[0]; pi++)
		for (int form = 0; form < 2; form++)
		{
			snprintf(cur_ptr, sizeof cur_ptr, "%s", ptrs[pi]);
			cur_op = form ? "getf/setf(\"%%\" doubled + %s)" : "getf/setf(\"%%\" doubled)";
			cur_tree = NULL;
			if (!mc_case_begin())
				continue;
			/* the format: every '%' of the pointer doubled; form 1 moves the last reference token into a %s argument */
			char fmt[128], arg[64] = "";
			const char *cut = form ? strrchr(ptrs[pi], '/') : NULL;
			size_t upto = cut ? (size_t)(cut - ptrs[pi]) + 1 : strlen(ptrs[pi]);
			size_t k = 0;
			for (size_t i = 0; i < upto; i++)
			{
				if (ptrs[pi][i] == '%')
					fmt[k++] = '%';
				fmt[k++] = ptrs[pi][i];
			}
			fmt[k] = 0;
			if (cut)
			{
				strcat(fmt, "%s");
				snprintf(arg, sizeof arg, "%s", cut + 1);
			}
			else if (form)
				continue;
			struct json_object *o = json_tokener_parse(doc), *r1 = (void *)0x11, *r2 = (void *)0x22;
			MC_COUNT("calls", 4);
			errno = mc_errno_pre;
			int rc1 = json_pointer_get(o, ptrs[pi], &r1);
			int e1 = errno;
			errno = mc_errno_pre;
			int rc2 = cut ? json_pointer_getf(o, &r2, fmt, arg) : json_pointer_getf(o, &r2, fmt);
			int e2 = errno;
			if (rc1 != rc2 || (rc1 == 0 && r1 != r2) || (rc1 != 0 && e1 != e2))
				mc_violation("getf-differs-from-get", "getf(\"%s\"%s%s) gives rc %d errno %d; get(\"%s\") gives rc %d errno %d%s", fmt, cut ? ", " : "", arg, rc2, rc2 ? e2 : 0, ptrs[pi], rc1,
				             rc1 ? e1 : 0, rc1 == 0 && rc2 == 0 && r1 != r2 ? " (another node)" : "");
			/* set: the same value through both entry points on two copies of the document */
			struct json_object *oa = json_tokener_parse(doc), *ob = json_tokener_parse(doc);
			struct json_object *va = json_object_new_string("new"), *vb = json_object_new_string("new");
			int sa = json_pointer_set(&oa, ptrs[pi], va);
			int sb_ = cut ? json_pointer_setf(&ob, vb, fmt, arg) : json_pointer_setf(&ob, vb, fmt);
			sb_t da = {0}, db = {0};
			vf_dump(oa, &da, 0);
			vf_dump(ob, &db, 0);
			if (sa != sb_ || strcmp(sb_str(&da), sb_str(&db)))
				mc_violation("setf-differs-from-set", "setf(\"%s\"%s%s) gives rc %d and %.150s; set(\"%s\") gives rc %d and %.150s", fmt, cut ? ", " : "", arg, sb_, sb_str(&db), ptrs[pi], sa,
				             sb_str(&da));
			sb_free(&da);
			sb_free(&db);
			if (sa)
				json_object_put(va);
			if (sb_)
				json_object_put(vb);
			json_object_put(oa);
			json_object_put(ob);
			json_object_put(o);
			if (vf_live())
			{
				mc_violation("leak-after-set", "%ld blocks live", vf_live());
				mc_restart_worker();
			}
			mc_nontrivial(mc_hash_str(fmt));
			mc_sample_current();
		}
}

static void enumerate(void)
{
	fam_percent();
	gen_strings();
	struct vfam f = {.width = 2, .leaves = mk_leaves, .nleaves = 3, .keys = K12, .nkeys = NK12, .dup_keys = 0};
	vfam_init(&f, 1);
	/* depth <= 1: every tree */
	for (uint64_t i = 0; i < f.count[1]; i++)
	{
		if (mc_deadline())
			return;
		va_reset();
		make_leaves();
		one_tree(vfam_get(&f, 1, i), 5, mc_tier ? 5 : 4, 1);
	}
	/* wide arrays: two-digit index tokens (the multi-character path of the index parser) */
	static const char *wide[] = {"[0,1,2,3,4,5,6,7,8,9,10,11]", "{\"a\":[0,null,2,3,4,5,6,7,8,9,[10],{\"k\":11}]}", "[[0,1,2,3,4,5,6,7,8,9,10],null]",
	                             "{\"10\":[0,1,2,3,4,5,6,7,8,9,10,11,12],\"1\":{\"10\":1}}"};
	for (unsigned i = 0; i < sizeof wide / sizeof wide[0]; i++)
	{
		va_reset();
		struct rr_result rr;
		rr_parse((const unsigned char *)wide[i], strlen(wide[i]), NULL, &rr);
		one_tree(rr.value, 5, mc_tier ? 5 : 4, 1);
	}
	/* long tokens and deep pointers: formatted paths beyond 128 bytes (getf/setf), many tokens */
	{
		static char longdoc[4096];
		static const int klens[] = {100, 126, 127, 128, 129, 300};
		for (unsigned i = 0; i < sizeof klens / sizeof klens[0]; i++)
		{
			char key[320];
			memset(key, 'k', (size_t)klens[i]);
			key[klens[i] / 2] = '~'; /* needs escaping: the pointer is one byte longer than the key */
			key[klens[i]] = 0;
			snprintf(longdoc, sizeof longdoc, "{\"%s\":[0,1,2,3,4,5,6,7,8,9,10,11,{\"%s\":null}],\"a\":1}", key, key);
			va_reset();
			struct rr_result rr;
			rr_parse((const unsigned char *)longdoc, strlen(longdoc), NULL, &rr);
			one_tree(rr.value, 3, 2, 1);
		}
		va_reset();
		struct rr_result rr;
		const char *deep = "{\"a\":{\"b\":[{\"c\":{\"d\":[[{\"e\":{\"f\":[null,{\"g\":1}]}}]]}}]}}";
		rr_parse((const unsigned char *)deep, strlen(deep), NULL, &rr);
		one_tree(rr.value, 3, 2, 1);
	}
	/* depth 2: containers whose children come from a pool of depth<=1 values */
	static const char *pool_docs[] = {"1", "null", "\"s\"", "[]", "{}", "[null]", "[1,null]", "[null,\"s\"]", "{\"\":1}", "{\"a\":null}", "{\"/\":1,\"~\":null}",
	                                  "{\"~1\":1,\"~0\":\"s\"}", "{\"0\":1,\"01\":null}", "{\"-\":1,\"1\":\"s\"}", "{\"a/b\":null,\"m~n\":1}", "[\"s\",1]"};
	int np = mc_tier ? 16 : 8;
	for (int kind = 0; kind < 2; kind++)
		for (int a = -1; a < np; a++)
			for (int b = -1; b < np; b++)
			{
				if (a < 0 && b >= 0)
					continue;
				int nch = (a >= 0) + (b >= 0);
				int nkeypairs = kind == 0 ? 1 : nch == 0 ? 1 : nch == 1 ? NK12 : NK12 * (NK12 - 1);
				for (int kp = 0; kp < nkeypairs; kp++)
				{
					if (mc_deadline())
						return;
					va_reset();
					V *ch[2];
					for (int c = 0; c < nch; c++)
					{
						const char *doc = pool_docs[c == 0 ? a : b];
						struct rr_result rr;
						rr_parse((const unsigned char *)doc, strlen(doc), NULL, &rr);
						ch[c] = rr.value;
					}
					V *t;
					if (kind == 0)
					{
						t = v_arr((size_t)nch);
						for (int c = 0; c < nch; c++)
							t->items[c] = ch[c];
					}
					else
					{
						t = v_obj((size_t)nch);
						int k1 = nch == 2 ? kp / (NK12 - 1) : kp, k2 = 0;
						if (nch == 2)
						{
							k2 = kp % (NK12 - 1);
							if (k2 >= k1)
								k2++;
						}
						if (nch >= 1)
							v_obj_set(t, 0, K12[k1], strlen(K12[k1]), ch[0]);
						if (nch == 2)
							v_obj_set(t, 1, K12[k2], strlen(K12[k2]), ch[1]);
					}
					one_tree(t, mc_tier ? 5 : 4, mc_tier ? 4 : 3, 0);
				}
			}
}

static unsigned char docbuf2[4096];
static int replay(const char *desc)
{
	size_t n = 0, pl = 0;
	long val = 0;
	char op[32] = "get";
	if (strstr(desc, "op=getf/setf("))
	{
		/* the percent family is small: replay re-runs it */
		mc_case_begin_all();
		fam_percent();
		return (int)mc_violations();
	}
	gen_strings();
	if (!mc_desc_hex(desc, "doc", docbuf2, sizeof docbuf2, &n))
		return -1;
	mc_desc_hex(desc, "ptr", (unsigned char *)cur_ptr, sizeof cur_ptr - 1, &pl);
	cur_ptr[pl] = 0;
	mc_desc_int(desc, "val", &val);
	mc_desc_str(desc, "op", op, sizeof op);
	struct rr_result rr;
	rr_parse(docbuf2, n, NULL, &rr);
	if (rr.status)
		return -1;
	cur_tree = rr.value;
	cur_val = (int)val;
	if (!strncmp(op, "set", 3))
	{
		cur_op = !strcmp(op, "setf") ? "setf" : "set";
		check_set(rr.value, (int)val, !strcmp(op, "setf"));
	}
	else
	{
		struct json_object *o = v_build(rr.value);
		sb_reset(&d_before);
		vf_dump(o, &d_before, 0);
		cur_op = !strcmp(op, "getf") ? "getf" : "get";
		check_get(o, rr.value, !strcmp(op, "getf"), 1);
		json_object_put(o);
	}
	return (int)mc_violations();
}
int main(int argc, char **argv)
{
	struct mc_harness h = {"c12", enumerate, describe, replay};
	return mc_main(argc, argv, &h);
}
