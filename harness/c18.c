/* C18 - threaded build: shared reference counts are atomic, the hash seed is set once.
 *
 * mode=explore (variant "thr"): every interleaving of 2-3 real threads at memory
 *   access granularity with at most p preemptions (stateless DFS, prefix replay,
 *   one forked process per execution because library statics persist), oracle =
 *   destroy-once / freed-exactly-once / equal hashes / no access to freed memory,
 *   plus a vector-clock happens-before race monitor inside the exploration.
 * mode=free (variant "tsan"): the same bodies free-running under the real
 *   ThreadSanitizer runtime, repeated, as an independent cross-check. */
#include "mc.h"
#include "json.h"
#include "linkhash.h"
#include <errno.h>
#include <pthread.h>
#include <signal.h>
#include <stdlib.h>
#include <string.h>
#include <sys/mman.h>
#include <sys/time.h>
#include <sys/wait.h>
#include <unistd.h>

#ifdef C18_OWN_SCHED
#include "mcsched.h"
#define T_SPAWN(fn, arg) sched_spawn(fn, arg)
#define T_RELEASE() sched_release()
#define T_JOIN(t) sched_join(t)
#define T_FINISH() sched_finish()
static void oracle_fail(const char *msg)
{
	sched_fail(SCHED_ORACLE, msg);
}
#else
static pthread_t fr_th[8];
static pthread_barrier_t fr_bar;
static int fr_n;
struct fr_start
{
	void (*fn)(void *);
	void *arg;
};
static struct fr_start fr_args[8];
static void *fr_main(void *a)
{
	struct fr_start *s = a;
	pthread_barrier_wait(&fr_bar);
	s->fn(s->arg);
	return NULL;
}
static int fr_expected;
static int T_SPAWN(void (*fn)(void *), void *arg)
{
	int t = ++fr_n;
	fr_args[t].fn = fn;
	fr_args[t].arg = arg;
	pthread_create(&fr_th[t], NULL, fr_main, &fr_args[t]);
	return t;
}
static void T_RELEASE(void)
{
	pthread_barrier_wait(&fr_bar);
}
static void T_JOIN(int t)
{
	pthread_join(fr_th[t], NULL);
}
static void T_FINISH(void)
{
}
static int free_failed;
static void oracle_fail(const char *msg)
{
	fprintf(stderr, "ORACLE: %s\n", msg);
	free_failed = 1;
}
#endif

/* ---------- harness bodies ---------- */
static int destroyed_x, destroyed_child;
static void on_x(struct json_object *o, void *ud)
{
	(void)o;
	(void)ud;
	__atomic_fetch_add(&destroyed_x, 1, __ATOMIC_SEQ_CST);
}
static void on_child(struct json_object *o, void *ud)
{
	(void)o;
	(void)ud;
	__atomic_fetch_add(&destroyed_child, 1, __ATOMIC_SEQ_CST);
}
static struct json_object *X;
static int freed_reports; /* number of json_object_put() calls that returned 1 */
static int variant;

static void worker_getput(void *arg)
{
	(void)arg;
	/* the thread borrows main's reference (main joins before releasing it) */
	json_object_get(X);
	if (variant)
		json_object_get(X);
	if (json_object_put(X))
		__atomic_fetch_add(&freed_reports, 1, __ATOMIC_SEQ_CST);
	if (variant && json_object_put(X))
		__atomic_fetch_add(&freed_reports, 1, __ATOMIC_SEQ_CST);
}
static void worker_owner(void *arg)
{
	(void)arg;
	/* the thread owns one reference handed over by main */
	if (variant)
	{
		json_object_get(X);
		if (json_object_put(X))
			__atomic_fetch_add(&freed_reports, 1, __ATOMIC_SEQ_CST);
	}
	if (json_object_put(X))
		__atomic_fetch_add(&freed_reports, 1, __ATOMIC_SEQ_CST);
}
static unsigned long hashes[8][2];
static void worker_hash(void *arg)
{
	int me = (int)(intptr_t)arg;
	/* variant 3: the first key ever hashed is the empty string, other keys follow */
	const char *k0 = variant == 3 ? "" : "k";
	struct json_object *o = json_object_new_object();
	json_object_object_add(o, k0, json_object_new_int(me));
	hashes[me][0] = lh_get_hash(json_object_get_object(o), k0);
	if (variant == 3)
		json_object_object_add(o, "k", json_object_new_int(-me));
	struct json_object *v = NULL;
	if (!json_object_object_get_ex(o, k0, &v) || json_object_get_int(v) != me)
		oracle_fail("a thread does not find the key it just added to its own object");
	hashes[me][1] = lh_get_hash(json_object_get_object(o), k0);
	json_object_put(o);
}
static char results[8][128];
static void worker_disjoint(void *arg)
{
	int me = (int)(intptr_t)arg;
	char doc[96];
	snprintf(doc, sizeof doc, "{\"id\":%d,\"list\":[1,2.5,\"x%d\"],\"o\":{\"k\":null}}", me, me);
	struct json_object *o = json_tokener_parse(doc);
	if (!o)
	{
		oracle_fail("parse failed in a thread working on its own tree");
		return;
	}
	json_object_object_add(o, "extra", json_object_new_int(me * 10));
	if (variant)
	{
		/* each thread formats doubles its own way (a per-thread setting): "%.0f" drops the fraction,
		 * the others keep one - settings of one thread must not leak into another */
		static const char *const fmts[4] = {"", "%.0f", "%.3g", "%.2f"};
		json_object_object_add(o, "d", json_object_new_double(3.0));
		json_c_set_serialization_double_format(fmts[me & 3], JSON_C_OPTION_THREAD);
	}
	snprintf(results[me], sizeof results[me], "%s", json_object_to_json_string_ext(o, JSON_C_TO_STRING_PLAIN));
	if (variant)
		json_c_set_serialization_double_format(NULL, JSON_C_OPTION_THREAD);
	json_object_put(o);
}

/* body ids: 1 borrow get/put, 2 hand-over, 3 hand-over with child, 4 first use of the hash, 5 disjoint trees */
static void run_body(int body, int nthr, int var)
{
	int tids[4];
	variant = var;
	destroyed_x = destroyed_child = freed_reports = 0;
	switch (body)
	{
	case 1:
	case 2:
	case 3:
	{
		if (body == 3)
		{
			X = json_object_new_object();
			struct json_object *child = json_object_new_string("child");
			json_object_set_userdata(child, NULL, on_child);
			json_object_object_add(X, "c", child);
		}
		else
			X = json_object_new_string("shared node");
		json_object_set_userdata(X, NULL, on_x);
		if (body >= 2)
			for (int i = 0; i < nthr; i++)
				json_object_get(X); /* one reference per thread, handed over */
		for (int i = 0; i < nthr; i++)
			tids[i] = T_SPAWN(body == 1 ? worker_getput : worker_owner, NULL);
		T_RELEASE();
		if (body >= 2)
		{
			/* main releases its own reference without waiting for the threads */
			if (json_object_put(X))
				__atomic_fetch_add(&freed_reports, 1, __ATOMIC_SEQ_CST);
		}
		for (int i = 0; i < nthr; i++)
			T_JOIN(tids[i]);
		if (body == 1)
		{
			if (destroyed_x != 0)
				oracle_fail("the node was destroyed while main still held its reference");
			else if (json_object_put(X) != 1)
				oracle_fail("main's final json_object_put did not report 'freed': a reference count update was lost");
			else
				freed_reports++;
		}
		T_FINISH();
		if (destroyed_x != 1)
			oracle_fail(destroyed_x == 0 ? "the node was never destroyed although every reference was released (lost decrement)"
			                             : "the node's destruction callback ran more than once");
		else if (freed_reports != 1)
			oracle_fail("json_object_put reported 'freed' a number of times different from one");
		if (body == 3 && destroyed_child != 1)
			oracle_fail("the child of the shared object was not destroyed exactly once");
		break;
	}
	case 4:
	{
		/* distinct values per caller, and -1 once to walk the retry loop */
		vf_seed_n = 8;
		vf_seed_values[0] = (uint32_t)-1;
		for (int i = 1; i < 8; i++)
			vf_seed_values[i] = 1000u + (uint32_t)i * 7919u;
		if (var == 2)
			vf_seed_values[1] = vf_seed_values[2] = (uint32_t)-1; /* the refused value several times in a row */
		for (int i = 0; i < nthr; i++)
			tids[i] = T_SPAWN(worker_hash, (void *)(intptr_t)(i + 1));
		T_RELEASE();
		for (int i = 0; i < nthr; i++)
			T_JOIN(tids[i]);
		T_FINISH();
		if (var == 1)
		{
			/* "at every later time": the process later switches the global string hash away from the
			 * default and back (no thread is running any more) - the seed must not be drawn again */
			json_global_set_string_hash(JSON_C_STR_HASH_PERLLIKE);
			json_global_set_string_hash(JSON_C_STR_HASH_DFLT);
		}
		struct lh_table *t = lh_kchar_table_new(4, NULL);
		unsigned long h = lh_get_hash(t, var == 3 ? "" : "k");
		lh_table_free(t);
		for (int i = 1; i <= nthr; i++)
			if (hashes[i][0] != h || hashes[i][1] != h)
			{
				oracle_fail("a key hashed differently in different threads or at different times: the seed was published more than once");
				break;
			}
		break;
	}
	case 5:
	{
		for (int i = 0; i < nthr; i++)
			tids[i] = T_SPAWN(worker_disjoint, (void *)(intptr_t)(i + 1));
		T_RELEASE();
		for (int i = 0; i < nthr; i++)
			T_JOIN(tids[i]);
		T_FINISH();
		for (int i = 1; i <= nthr; i++)
		{
			char expect[160];
			static const char *const dtxt[4] = {"", "3", "3.0", "3.00"};
			if (var)
				snprintf(expect, sizeof expect, "{\"id\":%d,\"list\":[1,%s,\"x%d\"],\"o\":{\"k\":null},\"extra\":%d,\"d\":%s}", i, "2.5" /* parsed: keeps its source text */, i, i * 10, dtxt[i & 3]);
			else
				snprintf(expect, sizeof expect, "{\"id\":%d,\"list\":[1,2.5,\"x%d\"],\"o\":{\"k\":null},\"extra\":%d}", i, i, i * 10);
			if (strcmp(expect, results[i]))
			{
				oracle_fail("a thread working on its own tree produced a different serialization than the sequential run");
				break;
			}
		}
		break;
	}
	}
}

struct cfg
{
	int body, nthr, var, bound_q, bound_t;
};
static const struct cfg CFGS[] = {
    {1, 2, 0, 2, 5}, {1, 2, 1, 2, 5}, {1, 3, 0, 1, 4}, {2, 2, 0, 2, 5}, {2, 2, 1, 2, 5}, {2, 3, 0, 1, 4}, {3, 2, 0, 2, 5},
    {3, 3, 0, 1, 3}, {4, 2, 0, 2, 5}, {4, 3, 0, 1, 4}, {5, 2, 0, 1, 3}, {1, 3, 1, 1, 3}, {2, 3, 1, 1, 3}, {3, 2, 1, 2, 4},
    {4, 2, 1, 1, 2}, {5, 2, 1, 1, 2}, {4, 2, 2, 2, 3}, {4, 2, 3, 1, 2},
};
#define NCFG (int)(sizeof CFGS / sizeof CFGS[0])

static int cur_cfg = -1;
static unsigned char cur_choices[2048];
static int cur_nchoices;
static void describe(sb_t *o)
{
	if (cur_cfg >= 0)
		sb_printf(o, "body=%d threads=%d variant=%d schedule=", CFGS[cur_cfg].body, CFGS[cur_cfg].nthr, CFGS[cur_cfg].var);
	for (int i = 0; i < cur_nchoices && i < 600; i++)
		sb_printf(o, "%d", cur_choices[i]);
}

#ifdef C18_OWN_SCHED
static struct sched_shared *SH;
static long n_exec;
/* one execution in a forked child; the trace is left in SH */
static void execute(int c, const unsigned char *prefix, int nprefix)
{
	memset(SH, 0, sizeof *SH);
	SH->nprefix = nprefix;
	memcpy(SH->prefix, prefix, (size_t)nprefix);
	fflush(NULL);
	pid_t pid = fork();
	if (pid == 0)
	{
		static const int sigs[] = {SIGALRM, SIGSEGV, SIGBUS, SIGABRT, SIGFPE, SIGILL};
		for (unsigned k = 0; k < sizeof sigs / sizeof sigs[0]; k++)
			signal(sigs[k], SIG_DFL);
		alarm(20);
		sched_init(SH);
		run_body(CFGS[c].body, CFGS[c].nthr, CFGS[c].var);
		_exit(0);
	}
	int st = 0;
	while (waitpid(pid, &st, 0) < 0 && errno == EINTR)
	{
	}
	n_exec++;
	if (!(WIFEXITED(st) && WEXITSTATUS(st) == 0) && !SH->result)
	{
		SH->result = SCHED_ORACLE;
		snprintf(SH->msg, sizeof SH->msg, "the execution died (wait status 0x%x): crash, assertion or hang under this schedule", st);
	}
}
static void judge(int c)
{
	cur_cfg = c;
	cur_nchoices = SH->npoints < 2048 ? SH->npoints : 2048;
	for (int i = 0; i < cur_nchoices; i++)
		cur_choices[i] = SH->pt[i].chosen;
	MC_COUNT("schedules", 1);
	MC_COUNT("scheduling_points", SH->npoints);
	MC_COUNT("calls", SH->accesses);
	MC_MAX("points_per_schedule", SH->npoints);
	if (SH->result == SCHED_DIVERGED)
		mc_violation("harness:replay-divergence", "%s", SH->msg);
	else if (SH->result == SCHED_USE_AFTER_FREE)
		mc_violation("access-to-freed-node", "%s", SH->msg);
	else if (SH->result == SCHED_DEADLOCK)
		mc_violation("deadlock", "%s", SH->msg);
	else if (SH->result)
	{
		char sig[64];
		snprintf(sig, sizeof sig, "body%d:oracle", CFGS[c].body);
		mc_violation(sig, "%s", SH->msg);
	}
	if (SH->n_races)
	{
		char sig[64];
		snprintf(sig, sizeof sig, "body%d:data-race", CFGS[c].body);
		mc_violation(sig, "%s (%ld racing pairs in this execution)", SH->race_msg, SH->n_races);
	}
	if (SH->overflow)
		mc_not_exhaustive("an execution had more scheduling points than the trace buffer");
	int pre = 0;
	for (int i = 0; i < SH->npoints; i++)
		pre += SH->pt[i].chosen != 0 && SH->pt[i].cur_enabled;
	uint64_t h = SH->outcome ^ ((uint64_t)SH->result << 40) ^ (uint64_t)SH->n_races;
	mc_outcome(mc_hash(cur_choices, (size_t)(cur_nchoices > 12 ? 12 : cur_nchoices), h));
	MC_MAX("preemptions_used", pre);
	if (pre > 0)
		mc_nontrivial(mc_hash(cur_choices, (size_t)cur_nchoices, (uint64_t)c));
	mc_sample_current();
}
static void explore(int c, const unsigned char *prefix, int nprefix, int bound)
{
	if (mc_deadline())
		return;
	if (!mc_case_begin_all())
		return;
	execute(c, prefix, nprefix);
	judge(c);
	int np = SH->npoints;
	struct sched_point *pts = malloc(sizeof *pts * (size_t)(np + 1));
	memcpy(pts, SH->pt, sizeof *pts * (size_t)np);
	unsigned char *pre = malloc((size_t)np + 2);
	for (int i = 0; i < np; i++)
		pre[i] = pts[i].chosen;
	int cost = 0;
	for (int i = 0; i < nprefix && i < np; i++)
		cost += pts[i].chosen != 0 && pts[i].cur_enabled;
	for (int i = nprefix; i < np; i++)
	{
		for (int alt = 1; alt < pts[i].n_enabled; alt++)
		{
			int cc = cost + (pts[i].cur_enabled ? 1 : 0);
			if (cc > bound)
				continue;
			unsigned char save = pre[i];
			pre[i] = (unsigned char)alt;
			explore(c, pre, i + 1, bound);
			pre[i] = save;
		}
		cost += pts[i].chosen != 0 && pts[i].cur_enabled;
	}
	free(pts);
	free(pre);
}
static void enumerate(void)
{
	SH = mmap(NULL, sizeof *SH, PROT_READ | PROT_WRITE, MAP_SHARED | MAP_ANONYMOUS, -1, 0);
	int only = (int)mc_opt_int("cfg", -1);
	for (int c = 0; c < NCFG; c++)
	{
		if (only >= 0 && c != only)
			continue;
		if (!mc_mine((uint64_t)c))
			continue;
		cur_cfg = c;
		int bound = (int)mc_opt_int("bound", mc_tier ? CFGS[c].bound_t : CFGS[c].bound_q);
		long e0 = n_exec;
		explore(c, NULL, 0, bound);
		MC_COUNT("configurations", 1);
		mc_note("body %d, %d threads, variant %d, preemption bound %d: %ld schedules", CFGS[c].body, CFGS[c].nthr, CFGS[c].var, bound, n_exec - e0);
	}
}
static int replay(const char *desc)
{
	long b = 1, t = 2, v = 0;
	char sched[2100] = "";
	mc_desc_int(desc, "body", &b);
	mc_desc_int(desc, "threads", &t);
	mc_desc_int(desc, "variant", &v);
	mc_desc_str(desc, "schedule", sched, sizeof sched);
	SH = mmap(NULL, sizeof *SH, PROT_READ | PROT_WRITE, MAP_SHARED | MAP_ANONYMOUS, -1, 0);
	int c = -1;
	for (int i = 0; i < NCFG; i++)
		if (CFGS[i].body == b && CFGS[i].nthr == t && CFGS[i].var == v)
			c = i;
	if (c < 0)
		return -1;
	unsigned char pre[2048];
	int n = 0;
	for (char *p = sched; *p && n < 2048; p++)
		pre[n++] = (unsigned char)(*p - '0');
	/* twice: identical observations are required before a failure is believed */
	execute(c, pre, n);
	int r1 = SH->result;
	long races1 = SH->n_races;
	int np1 = SH->npoints;
	execute(c, pre, n);
	printf("replay 1: result %d races %ld points %d; replay 2: result %d races %ld points %d\n%s\n%s\n", r1, races1, np1, SH->result, SH->n_races, SH->npoints, SH->msg,
	       SH->race_msg);
	for (int i = 0; i < SH->npoints; i++)
		printf("%d", SH->pt[i].tid);
	printf("  (thread chosen at each scheduling point)\n");
	if (r1 != SH->result || races1 != SH->n_races || np1 != SH->npoints)
	{
		printf("NON-DETERMINISTIC REPLAY\n");
		return -1;
	}
	return (SH->result || SH->n_races) ? 1 : 0;
}
#else
/* free running under the real ThreadSanitizer runtime */
static void enumerate(void)
{
	int reps = (int)mc_opt_int("reps", mc_tier ? 300 : 60);
	for (int c = 0; c < NCFG; c++)
	{
		if (!mc_mine((uint64_t)c))
			continue;
		cur_cfg = c;
		cur_nchoices = 0;
		for (int r = 0; r < reps; r++)
		{
			if (!mc_case_begin_all())
				continue;
			fflush(NULL);
			pid_t pid = fork();
			if (pid == 0)
			{
				static const int sigs[] = {SIGALRM, SIGSEGV, SIGBUS, SIGABRT, SIGFPE, SIGILL};
				for (unsigned k = 0; k < sizeof sigs / sizeof sigs[0]; k++)
					signal(sigs[k], SIG_DFL);
				alarm(60);
				vf_threaded = 1;
				fr_n = 0;
				fr_expected = CFGS[c].nthr;
				pthread_barrier_init(&fr_bar, NULL, (unsigned)CFGS[c].nthr + 1);
				run_body(CFGS[c].body, CFGS[c].nthr, CFGS[c].var);
				_exit(free_failed ? 3 : 0);
			}
			int st = 0;
			while (waitpid(pid, &st, 0) < 0 && errno == EINTR)
			{
			}
			MC_COUNT("calls", 1);
			MC_COUNT("free_runs", 1);
			if (WIFEXITED(st) && WEXITSTATUS(st) == 66)
			{
				char sig[64];
				snprintf(sig, sizeof sig, "body%d:tsan-report", CFGS[c].body);
				mc_violation(sig, "the real ThreadSanitizer runtime reported a data race (see the shard's tsan log)");
			}
			else if (!(WIFEXITED(st) && WEXITSTATUS(st) == 0))
			{
				char sig[64];
				snprintf(sig, sizeof sig, "body%d:free-run-failed", CFGS[c].body);
				mc_violation(sig, "free-running execution ended with wait status 0x%x", st);
			}
			mc_outcome((uint64_t)st + 1);
			if (r == 0)
				mc_nontrivial((uint64_t)c + 1);
		}
		mc_sample_current();
	}
}
static int replay(const char *desc)
{
	(void)desc;
	enumerate();
	return (int)mc_violations();
}
#endif

int main(int argc, char **argv)
{
	struct mc_harness h = {"c18", enumerate, describe, replay};
	return mc_main(argc, argv, &h);
}
