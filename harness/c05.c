/* C05 - every node is destroyed exactly once, exactly when its last owner releases it.
 * BFS over operation histories on a pool of 3 handle slots; reference-count graph
 * model predicts, for every transition, the return code and the exact set of nodes
 * (userdata tokens) whose destruction callback runs at that call; drain at every
 * explored state in every order.  Sanitizer build. */
#include "mc.h"
#include "json.h"
#include <errno.h>
#include <stdlib.h>
#include <string.h>

#define NSLOT 3
#define MAXNODES 64
#define ANON (-1)
enum
{
	MK_OBJ,
	MK_ARR,
	MK_INT
};
struct mnode
{
	int kind, alive, token;
	int val; /* int nodes: the number they hold */
	int nk;
	char keys[8];
	int kchild[8]; /* node id, 0 = JSON null, ANON = untracked int added by a patch */
	int nel;
	int el[12];
};
struct st
{
	struct mnode n[MAXNODES];
	struct json_object *real[MAXNODES];
	int nn;
	int slot_node[NSLOT], slot_refs[NSLOT];
	int next_token;
	int cb_log[256], ncb;
	int dead;
};
static struct st *cur;

static void on_delete(struct json_object *o, void *ud)
{
	(void)o;
	if (cur && cur->ncb < 256)
		cur->cb_log[cur->ncb++] = (int)(intptr_t)ud;
}

/* ---------- model helpers ---------- */
static int edges_in(struct st *s, int id)
{
	int c = 0;
	for (int i = 1; i <= s->nn; i++)
	{
		struct mnode *m = &s->n[i];
		if (!m->alive)
			continue;
		for (int k = 0; k < m->nk; k++)
			c += m->kchild[k] == id;
		for (int k = 0; k < m->nel; k++)
			c += m->el[k] == id;
	}
	return c;
}
static int refcount(struct st *s, int id)
{
	int c = edges_in(s, id);
	for (int i = 0; i < NSLOT; i++)
		if (s->slot_node[i] == id)
			c += s->slot_refs[i];
	return c;
}
static int exp_tok[64], nexp;
static void release(struct st *s, int id)
{
	if (id <= 0 || !s->n[id].alive || refcount(s, id) > 0)
		return;
	struct mnode *m = &s->n[id];
	m->alive = 0;
	exp_tok[nexp++] = m->token;
	int kids[24], nkids = 0;
	for (int k = 0; k < m->nk; k++)
		kids[nkids++] = m->kchild[k];
	for (int k = 0; k < m->nel; k++)
		kids[nkids++] = m->el[k];
	m->nk = m->nel = 0;
	for (int k = 0; k < nkids; k++)
		release(s, kids[k]);
}
static int reaches(struct st *s, int from, int target)
{
	if (from <= 0)
		return 0;
	if (from == target)
		return 1;
	struct mnode *m = &s->n[from];
	for (int k = 0; k < m->nk; k++)
		if (reaches(s, m->kchild[k], target))
			return 1;
	for (int k = 0; k < m->nel; k++)
		if (reaches(s, m->el[k], target))
			return 1;
	return 0;
}
static void model_dump(struct st *s, int id, sb_t *o)
{
	if (id == 0)
	{
		sb_putc(o, 'n');
		return;
	}
	if (id == ANON)
	{
		sb_puts(o, "i1");
		return;
	}
	struct mnode *m = &s->n[id];
	if (m->kind == MK_INT)
		sb_printf(o, "i%d", m->val);
	else if (m->kind == MK_ARR)
	{
		sb_putc(o, '[');
		for (int k = 0; k < m->nel; k++)
		{
			if (k)
				sb_putc(o, ',');
			model_dump(s, m->el[k], o);
		}
		sb_putc(o, ']');
	}
	else
	{
		sb_putc(o, '{');
		for (int k = 0; k < m->nk; k++)
		{
			if (k)
				sb_putc(o, ',');
			sb_printf(o, "k1:%02x=", m->keys[k]);
			model_dump(s, m->kchild[k], o);
		}
		sb_putc(o, '}');
	}
}
static int new_model_node(struct st *s, int kind)
{
	int id = ++s->nn;
	if (id >= MAXNODES)
		abort();
	memset(&s->n[id], 0, sizeof s->n[id]);
	s->n[id].kind = kind;
	s->n[id].alive = 1;
	s->n[id].token = ++s->next_token;
	s->n[id].val = id;
	return id;
}
static int find_key(struct mnode *m, char k)
{
	for (int i = 0; i < m->nk; i++)
		if (m->keys[i] == k)
			return i;
	return -1;
}
static void take_ref_from_slot(struct st *s, int slot)
{
	if (--s->slot_refs[slot] == 0)
		s->slot_node[slot] = 0;
}

/* ---------- operations ---------- */
enum
{
	O_NEW,
	O_GET,
	O_PUT,
	O_OBJ_ADD,
	O_OBJ_ADD_SELF,
	O_OBJ_DEL,
	O_ARR_ADD,
	O_ARR_PUT,
	O_ARR_INS,
	O_ARR_DEL,
	O_SET_USERDATA,
	O_SET_SERIALIZER,
	O_DEEP_COPY,
	O_PTR_SET,
	O_PATCH,
	O_BORROW, /* take an extra reference to a node reached through its parent (object_get / array_get_idx + get) */
	O_SHRINK
};
/* op = kind<<10 | p<<8 | c<<6 | x   (c == 3 means "NULL value") */
#define OP(kind, p, c, x) (((kind) << 10) | ((p) << 8) | ((c) << 6) | (x))
#define OPK(op) ((op) >> 10)
#define OPP(op) (((op) >> 8) & 3)
#define OPC(op) (((op) >> 6) & 3)
#define OPX(op) ((op)&63)
static const char *ptr_paths[] = {"", "/a", "/0", "/a/b", "/-"};
static const char *patches[] = {
    "[{\"op\":\"remove\",\"path\":\"/a\"}]",
    "[{\"op\":\"remove\",\"path\":\"/0\"}]",
    "[{\"op\":\"move\",\"from\":\"/a\",\"path\":\"/b\"}]",
    "[{\"op\":\"move\",\"from\":\"/0\",\"path\":\"/-\"}]",
    "[{\"op\":\"add\",\"path\":\"/b\",\"value\":1}]",
    "[{\"op\":\"test\",\"path\":\"/a\",\"value\":1},{\"op\":\"remove\",\"path\":\"/a\"}]",
};
static void opname(int op, sb_t *o)
{
	static const char *kn[] = {"new", "get", "put", "object_add", "object_add(self)", "object_del", "array_add", "array_put_idx", "array_insert_idx", "array_del_idx",
	                           "set_userdata", "set_serializer", "deep_copy", "pointer_set", "patch_apply", "borrow", "shrink"};
	int k = OPK(op), p = OPP(op), c = OPC(op), x = OPX(op);
	switch (k)
	{
	case O_NEW: sb_printf(o, "s%d=new_%s", p, x == MK_OBJ ? "object" : x == MK_ARR ? "array" : "int"); break;
	case O_OBJ_ADD: sb_printf(o, "object_add(s%d,\"%c\",%s)", p, 'a' + x, c == 3 ? "NULL" : c == 0 ? "s0" : c == 1 ? "s1" : "s2"); break;
	case O_OBJ_DEL: sb_printf(o, "object_del(s%d,\"%c\")", p, 'a' + x); break;
	case O_ARR_ADD: sb_printf(o, "array_add(s%d,%s%d)", p, c == 3 ? "NULL" : "s", c == 3 ? 0 : c); break;
	case O_ARR_PUT: sb_printf(o, "array_put_idx(s%d,%d,%s%d)", p, x, c == 3 ? "NULL" : "s", c == 3 ? 0 : c); break;
	case O_ARR_INS: sb_printf(o, "array_insert_idx(s%d,%d,s%d)", p, x, c); break;
	case O_ARR_DEL: sb_printf(o, "array_del_idx(s%d,%d,%d)", p, x >> 2, x & 3); break;
	case O_DEEP_COPY: sb_printf(o, "s%d=deep_copy(s%d)", c, p); break;
	case O_PTR_SET: sb_printf(o, "pointer_set(&s%d,\"%s\",s%d)", p, ptr_paths[x], c); break;
	case O_PATCH: sb_printf(o, "patch_apply(s%d,%s)", p, patches[x]); break;
	case O_BORROW:
		if (x < 2)
			sb_printf(o, "s%d=get(object_get(s%d,\"%c\"))", c, p, 'a' + x);
		else
			sb_printf(o, "s%d=get(array_get_idx(s%d,%d))", c, p, x - 2);
		break;
	case O_SHRINK: sb_printf(o, "array_shrink(s%d,%d)", p, x); break;
	default: sb_printf(o, "%s(s%d)", kn[k], p); break;
	}
}

static void *fresh(void)
{
	struct st *s = calloc(1, sizeof *s);
	cur = s;
	return s;
}
static void fail(struct st *s, const char *sig, const char *fmt, ...)
{
	char msg[700];
	va_list ap;
	va_start(ap, fmt);
	vsnprintf(msg, sizeof msg, fmt, ap);
	va_end(ap);
	mc_violation(sig, "%s", msg);
	s->dead = 1;
}
static sb_t dm, dr;
static void check_after(struct st *s, const char *what, int ncb0)
{
	/* destruction callbacks of this call == predicted set (order of a cascade unconstrained) */
	int got = s->ncb - ncb0;
	int ok = got == nexp;
	for (int i = 0; ok && i < nexp; i++)
	{
		int f = 0;
		for (int j = ncb0; j < s->ncb; j++)
			f |= s->cb_log[j] == exp_tok[i];
		ok = f;
	}
	if (!ok)
	{
		char a[200] = "", b[200] = "";
		size_t la = 0, lb = 0;
		for (int j = ncb0; j < s->ncb && la < 180; j++)
			la += (size_t)snprintf(a + la, sizeof a - la, "%d ", s->cb_log[j]);
		for (int i = 0; i < nexp && lb < 180; i++)
			lb += (size_t)snprintf(b + lb, sizeof b - lb, "%d ", exp_tok[i]);
		fail(s, got > nexp ? "destroyed-too-early-or-twice" : "not-destroyed-at-last-release", "%s: destruction callbacks ran for tokens {%s}, the ownership model predicts {%s}", what, a,
		     b);
		return;
	}
	/* every node the pool references is fully usable and holds the model's value */
	for (int i = 0; i < NSLOT; i++)
		if (s->slot_node[i])
		{
			sb_reset(&dm);
			sb_reset(&dr);
			model_dump(s, s->slot_node[i], &dm);
			vf_dump(s->real[s->slot_node[i]], &dr, 0);
			if (strcmp(sb_str(&dm), sb_str(&dr)))
			{
				fail(s, "value-differs-from-model", "%s: slot %d dumps as %.200s, model %.200s", what, i, sb_str(&dr), sb_str(&dm));
				return;
			}
		}
}

/* custom shallow copy: default + a tracked userdata token per copied node */
static struct st *copy_st;
static int copy_map_src[MAXNODES], copy_map_dst[MAXNODES], ncopy;
static int tracked_shallow_copy(json_object *src, json_object *parent, const char *key, size_t index, json_object **dst)
{
	int rc = json_c_shallow_copy_default(src, parent, key, index, dst);
	if (rc < 0)
		return rc;
	if (json_object_get_userdata(src))
	{
		int tok = ++copy_st->next_token;
		json_object_set_userdata(*dst, (void *)(intptr_t)tok, on_delete);
		copy_map_src[ncopy] = (int)(intptr_t)json_object_get_userdata(src);
		copy_map_dst[ncopy] = tok;
		ncopy++;
		return 2;
	}
	return rc;
}
static int model_copy(struct st *s, int id, struct json_object *realcopy)
{
	if (id <= 0)
		return id;
	int nid = new_model_node(s, s->n[id].kind);
	s->next_token--; /* the token is assigned by the copy callback: look it up */
	int tok = -1;
	for (int i = 0; i < ncopy; i++)
		if (copy_map_src[i] == s->n[id].token && copy_map_dst[i] > 0)
		{
			tok = copy_map_dst[i];
			copy_map_dst[i] = -copy_map_dst[i];
			break;
		}
	s->n[nid].token = tok;
	s->n[nid].val = s->n[id].val;
	s->real[nid] = realcopy;
	struct mnode *m = &s->n[id];
	if (m->kind == MK_OBJ)
	{
		for (int k = 0; k < m->nk; k++)
		{
			char ks[2] = {m->keys[k], 0};
			struct json_object *c = json_object_object_get(realcopy, ks);
			int cid = model_copy(s, m->kchild[k], c);
			struct mnode *nm = &s->n[nid];
			nm->keys[nm->nk] = m->keys[k];
			nm->kchild[nm->nk++] = cid;
			m = &s->n[id];
		}
	}
	else if (m->kind == MK_ARR)
	{
		for (int k = 0; k < m->nel; k++)
		{
			struct json_object *c = json_object_array_get_idx(realcopy, (size_t)k);
			int cid = model_copy(s, m->el[k], c);
			s->n[nid].el[s->n[nid].nel++] = cid;
			m = &s->n[id];
		}
	}
	return nid;
}

/* model of object member add/replace at node pid */
static void m_obj_set(struct st *s, int pid, char key, int child)
{
	struct mnode *m = &s->n[pid];
	int k = find_key(m, key);
	if (k >= 0)
	{
		int old = m->kchild[k];
		m->kchild[k] = child;
		release(s, old);
	}
	else
	{
		m->keys[m->nk] = key;
		m->kchild[m->nk++] = child;
	}
}
/* removes member `key`; returns the child; with rel the child's edge is released */
static int m_obj_remove(struct st *s, int pid, char key, int rel)
{
	struct mnode *m = &s->n[pid];
	int ki = find_key(m, key);
	if (ki < 0)
		return 0;
	int old = m->kchild[ki];
	for (int i = ki; i + 1 < m->nk; i++)
	{
		m->keys[i] = m->keys[i + 1];
		m->kchild[i] = m->kchild[i + 1];
	}
	m->nk--;
	if (rel)
		release(s, old);
	return old;
}
static void m_arr_put(struct st *s, int pid, int idx, int child)
{
	struct mnode *m = &s->n[pid];
	if (idx < m->nel)
	{
		int old = m->el[idx];
		m->el[idx] = child;
		release(s, old);
	}
	else
	{
		while (m->nel < idx)
			m->el[m->nel++] = 0;
		m->el[m->nel++] = child;
	}
}
static void m_arr_insert(struct st *s, int pid, int idx, int child)
{
	struct mnode *m = &s->n[pid];
	if (idx >= m->nel)
	{
		m_arr_put(s, pid, idx, child);
		return;
	}
	for (int k = m->nel; k > idx; k--)
		m->el[k] = m->el[k - 1];
	m->el[idx] = child;
	m->nel++;
}
static void m_arr_del(struct st *s, int pid, int idx, int n)
{
	struct mnode *m = &s->n[pid];
	int gone[12], ng = 0;
	for (int k = idx; k < idx + n; k++)
		gone[ng++] = m->el[k];
	for (int k = idx; k + n < m->nel; k++)
		m->el[k] = m->el[k + n];
	m->nel -= n;
	for (int k = 0; k < ng; k++)
		release(s, gone[k]);
}

/* Environment deviation at the judged step: the transfer operations are first attempted with their
 * first, then their second allocation failing.  A failure reported under such a fault must leave
 * everything as it was (no destruction callback, every held node intact, the value still the
 * caller's); the operation is then repeated without a fault.  If the call succeeds anyway (no
 * allocation needed, or the failure was absorbed) it simply counts as the operation. */
static int opt_fault_probe = 1;
#define FAULT_PROBED(rcvar, CALL)                                                                                      \
	do                                                                                                                 \
	{                                                                                                                  \
		int done_ = 0;                                                                                                 \
		if (check && opt_fault_probe)                                                                                  \
			for (int kf_ = 1; kf_ <= 2 && !done_ && !s->dead; kf_++)                                                   \
			{                                                                                                          \
				int ncbp_ = s->ncb;                                                                                    \
				vf_fail_plan(vf_alloc_calls() + kf_, 0);                                                               \
				rcvar = (CALL);                                                                                        \
				int fired_ = vf_fail_fired();                                                                          \
				vf_fail_plan(0, 0);                                                                                    \
				if (rcvar == 0)                                                                                        \
				{                                                                                                      \
					done_ = 1;                                                                                         \
					break;                                                                                             \
				}                                                                                                      \
				if (!fired_)                                                                                           \
					break;                                                                                             \
				MC_COUNT("fault_probes", 1);                                                                           \
				char w2_[200];                                                                                         \
				snprintf(w2_, sizeof w2_, "%s failing because allocation %d of the call fails", what, kf_);            \
				mc_phase = "fault-probe";                                                                              \
				check_after(s, w2_, ncbp_);                                                                            \
				mc_phase = "op";                                                                                       \
			}                                                                                                          \
		if (s->dead)                                                                                                   \
			return;                                                                                                    \
		if (!done_)                                                                                                    \
			rcvar = (CALL);                                                                                            \
	} while (0)

static void apply(void *vs, int op, int check)
{
	struct st *s = vs;
	cur = s;
	if (s->dead)
		return;
	int k = OPK(op), p = OPP(op), c = OPC(op), x = OPX(op);
	char what[160];
	sb_t w;
	sb_init_fixed(&w, what, sizeof what);
	opname(op, &w);
	int ncb0 = s->ncb;
	nexp = 0;
	int pid = s->slot_node[p];
	int cid = c < 3 ? s->slot_node[c] : 0;
	struct json_object *rp = pid ? s->real[pid] : NULL;
	struct json_object *rc_ = cid ? s->real[cid] : NULL;
	MC_COUNT("calls", 1);
	mc_phase = "op";
	switch (k)
	{
	case O_NEW:
	{
		int id = new_model_node(s, x);
		s->real[id] = x == MK_OBJ ? json_object_new_object() : x == MK_ARR ? json_object_new_array() : json_object_new_int(id);
		json_object_set_userdata(s->real[id], (void *)(intptr_t)s->n[id].token, on_delete);
		s->slot_node[p] = id;
		s->slot_refs[p] = 1;
		break;
	}
	case O_GET:
		if (json_object_get(rp) != rp)
			fail(s, "get-return", "%s did not return its argument", what);
		s->slot_refs[p]++;
		break;
	case O_PUT:
	{
		take_ref_from_slot(s, p);
		release(s, pid);
		int want = !s->n[pid].alive;
		int rc = json_object_put(rp);
		if (check && rc != want)
		{
			fail(s, "put-return", "%s returned %d, the model says the node %s", what, rc, want ? "is freed by this call" : "is still referenced");
			return;
		}
		break;
	}
	case O_OBJ_ADD:
	{
		char key = (char)('a' + x);
		char ks[2] = {key, 0};
		int rc;
		FAULT_PROBED(rc, json_object_object_add(rp, ks, rc_));
		if (rc != 0)
		{
			fail(s, "add-failed", "%s returned %d", what, rc);
			return;
		}
		if (c < 3)
			take_ref_from_slot(s, c);
		m_obj_set(s, pid, key, cid);
		break;
	}
	case O_OBJ_ADD_SELF:
	{
		int rc = json_object_object_add(rp, "a", rp);
		if (check && rc == 0)
		{
			fail(s, "self-add-accepted", "%s returned 0 (a node became its own member)", what);
			return;
		}
		break; /* failed: ownership stays with the caller, nothing changes */
	}
	case O_OBJ_DEL:
	{
		char key = (char)('a' + x);
		char ks[2] = {key, 0};
		json_object_object_del(rp, ks);
		struct mnode *m = &s->n[pid];
		int ki = find_key(m, key);
		if (ki >= 0)
		{
			int old = m->kchild[ki];
			for (int i = ki; i + 1 < m->nk; i++)
			{
				m->keys[i] = m->keys[i + 1];
				m->kchild[i] = m->kchild[i + 1];
			}
			m->nk--;
			release(s, old);
		}
		break;
	}
	case O_ARR_ADD:
	{
		int rc;
		FAULT_PROBED(rc, json_object_array_add(rp, rc_));
		if (rc != 0)
		{
			fail(s, "add-failed", "%s returned %d", what, rc);
			return;
		}
		if (c < 3)
			take_ref_from_slot(s, c);
		m_arr_put(s, pid, s->n[pid].nel, cid);
		break;
	}
	case O_ARR_PUT:
	case O_ARR_INS:
	{
		int rc;
		FAULT_PROBED(rc, k == O_ARR_PUT ? json_object_array_put_idx(rp, (size_t)x, rc_) : json_object_array_insert_idx(rp, (size_t)x, rc_));
		if (rc != 0)
		{
			fail(s, "add-failed", "%s returned %d", what, rc);
			return;
		}
		if (c < 3)
			take_ref_from_slot(s, c);
		if (k == O_ARR_PUT)
			m_arr_put(s, pid, x, cid);
		else
			m_arr_insert(s, pid, x, cid);
		break;
	}
	case O_ARR_DEL:
	{
		int idx = x >> 2, n = x & 3;
		int valid = idx < s->n[pid].nel && idx + n <= s->n[pid].nel;
		int rc = json_object_array_del_idx(rp, (size_t)idx, (size_t)n);
		if (check && (rc == 0) != valid)
		{
			fail(s, "del-return", "%s returned %d on length %d", what, rc, s->n[pid].nel);
			return;
		}
		if (valid)
			m_arr_del(s, pid, idx, n);
		break;
	}
	case O_SET_USERDATA:
	case O_SET_SERIALIZER:
	{
		int old = s->n[pid].token;
		int tok = ++s->next_token;
		exp_tok[nexp++] = old; /* the previous callback runs now, once */
		if (k == O_SET_USERDATA)
			json_object_set_userdata(rp, (void *)(intptr_t)tok, on_delete);
		else
			json_object_set_serializer(rp, NULL, (void *)(intptr_t)tok, on_delete);
		s->n[pid].token = tok;
		break;
	}
	case O_DEEP_COPY:
	{
		struct json_object *dst = NULL;
		copy_st = s;
		ncopy = 0;
		int rc = json_object_deep_copy(rp, &dst, tracked_shallow_copy);
		if (rc != 0 || !dst)
		{
			fail(s, "deep-copy-failed", "%s returned %d", what, rc);
			return;
		}
		int nid = model_copy(s, pid, dst);
		s->slot_node[c] = nid;
		s->slot_refs[c] = 1;
		break;
	}
	case O_PTR_SET:
	{
		/* model first: does RFC 6901 placement succeed? */
		const char *path = ptr_paths[x];
		struct json_object *root = rp;
		int ok = 0, target_parent = 0, is_root = !path[0];
		char key = 0;
		int idx = -1;
		if (is_root)
			ok = 1;
		else if (strlen(path) == 2 && s->n[pid].kind == MK_OBJ)
			ok = 1, target_parent = pid, key = path[1]; /* "/a", "/0", "/-": a member with that name */
		else if (!strcmp(path, "/0") && s->n[pid].kind == MK_ARR)
			ok = 1, target_parent = pid, idx = 0;
		else if (!strcmp(path, "/-") && s->n[pid].kind == MK_ARR)
			ok = 1, target_parent = pid, idx = s->n[pid].nel;
		else if (!strcmp(path, "/a/b") && s->n[pid].kind == MK_OBJ)
		{
			int ki = find_key(&s->n[pid], 'a');
			int mid = ki >= 0 ? s->n[pid].kchild[ki] : 0;
			if (mid > 0 && s->n[mid].kind == MK_OBJ)
				ok = 1, target_parent = mid, key = 'b';
		}
		/* no cycle: the value must not contain the container it goes into */
		int rc = json_pointer_set(&root, path, rc_);
		if (check && (rc == 0) != ok)
		{
			fail(s, "pointer-set-return", "%s returned %d, the model says it %s", what, rc, ok ? "succeeds" : "fails");
			return;
		}
		if (rc == 0)
		{
			take_ref_from_slot(s, c);
			if (is_root)
			{
				/* the slot's reference to the old root is released and the slot takes over the
				 * value's transferred reference (before the old root's cascade is evaluated) */
				take_ref_from_slot(s, p);
				if (s->slot_node[p] != 0)
				{
					fail(s, "harness:slot-conflict", "root replacement while the slot holds several references");
					return;
				}
				s->slot_node[p] = cid;
				s->slot_refs[p] = 1;
				release(s, pid);
				if (check && root != rc_)
					fail(s, "pointer-set-root", "%s: *obj was not replaced by the value", what);
			}
			else if (key)
				m_obj_set(s, target_parent, key, cid);
			else
				m_arr_put(s, target_parent, idx, cid);
		}
		break;
	}
	case O_BORROW:
	{
		struct mnode *m = &s->n[pid];
		int child;
		struct json_object *rchild;
		if (x < 2)
		{
			char ks[2] = {(char)('a' + x), 0};
			int ki = find_key(m, ks[0]);
			child = ki >= 0 ? m->kchild[ki] : 0;
			rchild = json_object_object_get(rp, ks);
		}
		else
		{
			child = (x - 2) < m->nel ? m->el[x - 2] : 0;
			rchild = json_object_array_get_idx(rp, (size_t)(x - 2));
		}
		if (check && child > 0 && rchild != s->real[child])
		{
			fail(s, "child-lookup-differs", "%s: the node found through the parent is %p, the model's child is %p", what, (void *)rchild, (void *)s->real[child]);
			return;
		}
		if (child > 0)
		{
			json_object_get(rchild);
			s->slot_node[c] = child;
			s->slot_refs[c] = 1;
		}
		break;
	}
	case O_SHRINK:
	{
		int rc = json_object_array_shrink(rp, x);
		if (check && rc != 0)
			fail(s, "shrink-failed", "%s returned %d", what, rc);
		break;
	}
	case O_PATCH:
	{
		struct json_object *patch = json_tokener_parse(patches[x]);
		struct json_object *base = rp;
		struct mnode *m = &s->n[pid];
		int ok = 0;
		/* model: single-token locations; on an object the token is a member name, on an array an index */
		int ka = m->kind == MK_OBJ ? find_key(m, 'a') : -1;
		int k0 = m->kind == MK_OBJ ? find_key(m, '0') : -1;
		switch (x)
		{
		case 0: ok = ka >= 0; break;
		case 1: ok = (m->kind == MK_ARR && m->nel > 0) || k0 >= 0; break;
		case 2: ok = ka >= 0; break;
		case 3: ok = (m->kind == MK_ARR && m->nel > 0) || k0 >= 0; break;
		case 4: ok = m->kind == MK_OBJ; break;
		case 5: /* test value 1: an untracked int 1, or a tracked int node holding 1 */
			ok = ka >= 0 && (m->kchild[ka] == ANON || (m->kchild[ka] > 0 && s->n[m->kchild[ka]].kind == MK_INT && s->n[m->kchild[ka]].val == 1));
			break;
		}
		int rc = json_patch_apply(NULL, patch, &base, NULL);
		json_object_put(patch);
		if (check && (rc == 0) != ok)
		{
			fail(s, "patch-return", "%s returned %d, the model says it %s", what, rc, ok ? "succeeds" : "fails");
			return;
		}
		if (check && base != rp)
			fail(s, "patch-replaced-root", "%s changed *base", what);
		if (rc == 0)
		{
			switch (x)
			{
			case 0:
			case 5:
				m_obj_remove(s, pid, 'a', 1);
				break;
			case 1:
				if (m->kind == MK_ARR)
					m_arr_del(s, pid, 0, 1);
				else
					m_obj_remove(s, pid, '0', 1);
				break;
			case 2:
			{
				/* move /a -> /b: the moved value keeps its reference */
				int v = m_obj_remove(s, pid, 'a', 0);
				m_obj_set(s, pid, 'b', v);
				break;
			}
			case 3:
				if (m->kind == MK_ARR)
				{
					int v = m->el[0];
					for (int i = 0; i + 1 < m->nel; i++)
						m->el[i] = m->el[i + 1];
					m->el[m->nel - 1] = v;
				}
				else
				{
					int v = m_obj_remove(s, pid, '0', 0);
					m_obj_set(s, pid, '-', v);
				}
				break;
			case 4: m_obj_set(s, pid, 'b', ANON); break;
			}
		}
		break;
	}
	}
	mc_phase = "";
	if (check && !s->dead)
		check_after(s, what, ncb0);
}

static int slot_free(struct st *s)
{
	for (int i = 0; i < NSLOT; i++)
		if (!s->slot_node[i])
			return i;
	return -1;
}
static int menu(void *vs, int *ops, int cap)
{
	struct st *s = vs;
	int n = 0;
	(void)cap;
	if (s->dead || s->nn > MAXNODES - 12)
		return 0;
	int fs = slot_free(s);
	int small = (int)mc_opt_int("alphabet", 0); /* 1: containers only */
	if (fs >= 0)
		for (int kd = 0; kd < 3; kd++)
			if (!(small && kd == MK_INT && 0))
				ops[n++] = OP(O_NEW, fs, 0, kd);
	for (int p = 0; p < NSLOT; p++)
	{
		int pid = s->slot_node[p];
		if (!pid)
			continue;
		struct mnode *m = &s->n[pid];
		if (s->slot_refs[p] < 2)
			ops[n++] = OP(O_GET, p, 0, 0);
		ops[n++] = OP(O_PUT, p, 0, 0);
		if (!small)
		{
			ops[n++] = OP(O_SET_USERDATA, p, 0, 0);
			if (m->kind != MK_INT || 1)
				ops[n++] = OP(O_SET_SERIALIZER, p, 0, 0);
		}
		if (fs >= 0 && !small)
			ops[n++] = OP(O_DEEP_COPY, p, fs, 0);
		if (m->kind == MK_OBJ)
		{
			ops[n++] = OP(O_OBJ_ADD_SELF, p, 0, 0);
			for (int kk = 0; kk < 2; kk++)
			{
				ops[n++] = OP(O_OBJ_DEL, p, 0, kk);
				ops[n++] = OP(O_OBJ_ADD, p, 3, kk);
				for (int c = 0; c < NSLOT; c++)
				{
					int cid = s->slot_node[c];
					if (!cid || reaches(s, cid, pid))
						continue;
					ops[n++] = OP(O_OBJ_ADD, p, c, kk);
				}
			}
		}
		else if (m->kind == MK_ARR && m->nel <= 4)
		{
			ops[n++] = OP(O_ARR_ADD, p, 3, 0);
			static const int pidx[] = {0, 1, 3};
			for (int i = 0; i < 3; i++)
				ops[n++] = OP(O_ARR_PUT, p, 3, pidx[i]);
			for (int c = 0; c < NSLOT; c++)
			{
				int cid = s->slot_node[c];
				if (!cid || reaches(s, cid, pid))
					continue;
				ops[n++] = OP(O_ARR_ADD, p, c, 0);
				for (int i = 0; i < 3; i++)
					ops[n++] = OP(O_ARR_PUT, p, c, pidx[i]);
				for (int i = 0; i < 2; i++)
					ops[n++] = OP(O_ARR_INS, p, c, i);
			}
		}
		if (m->kind == MK_ARR)
		{
			for (int i = 0; i < 3; i++)
				for (int cnt = 1; cnt <= 2; cnt++)
					ops[n++] = OP(O_ARR_DEL, p, 0, (i << 2) | cnt);
			if (!small)
				ops[n++] = OP(O_SHRINK, p, 0, 0);
		}
		/* extra reference to a child reached through the parent */
		if (fs >= 0)
		{
			if (m->kind == MK_OBJ)
				for (int kk = 0; kk < 2; kk++)
				{
					int ki = find_key(m, (char)('a' + kk));
					if (ki >= 0 && m->kchild[ki] > 0)
						ops[n++] = OP(O_BORROW, p, fs, kk);
				}
			else if (m->kind == MK_ARR)
				for (int i = 0; i < 2 && i < m->nel; i++)
					if (m->el[i] > 0)
						ops[n++] = OP(O_BORROW, p, fs, 2 + i);
		}
		if (!small)
		{
			for (int c = 0; c < NSLOT; c++)
			{
				int cid = s->slot_node[c];
				if (!cid || c == p || reaches(s, cid, pid))
					continue;
				for (int x = 0; x < 5; x++)
				{
					if (x == 0 && (s->slot_refs[p] != 1 || s->slot_node[c] == pid))
						continue; /* root replacement: the slot must own exactly the one reference that is given up */
					if (x == 3)
					{
						/* "/a/b": the value must not contain the intermediate object either */
						int ki = m->kind == MK_OBJ ? find_key(m, 'a') : -1;
						int mid = ki >= 0 ? m->kchild[ki] : 0;
						if (mid > 0 && reaches(s, cid, mid))
							continue;
					}
					ops[n++] = OP(O_PTR_SET, p, c, x);
				}
			}
			for (int x = 0; x < 6; x++)
				ops[n++] = OP(O_PATCH, p, 0, x);
		}
	}
	return n;
}
/* canonical key: the model graph with nodes renamed in first-visit order from the slots */
static void key_rec(struct st *s, int id, int *ren, int *nren, sb_t *o)
{
	if (id <= 0)
	{
		sb_putc(o, id == 0 ? 'n' : 'x');
		return;
	}
	if (ren[id])
	{
		sb_printf(o, "^%d", ren[id]);
		return;
	}
	ren[id] = ++*nren;
	struct mnode *m = &s->n[id];
	sb_printf(o, "%c(", m->kind == MK_OBJ ? 'O' : m->kind == MK_ARR ? 'A' : 'I');
	/* the allocated capacity decides which later calls allocate (and so can fail): states that
	 * differ in it have different futures under the fault probes and are not merged */
	if (m->kind == MK_ARR && s->real[id])
		sb_printf(o, "cap%zu:", json_object_get_array(s->real[id])->size);
	for (int k = 0; k < m->nk; k++)
	{
		sb_putc(o, m->keys[k]);
		key_rec(s, m->kchild[k], ren, nren, o);
	}
	for (int k = 0; k < m->nel; k++)
	{
		sb_putc(o, ',');
		key_rec(s, m->el[k], ren, nren, o);
	}
	sb_putc(o, ')');
}
static uint64_t key(void *vs)
{
	struct st *s = vs;
	int ren[MAXNODES] = {0}, nren = 0;
	sb_t o = {0};
	sb_printf(&o, "%d|", s->dead);
	for (int i = 0; i < NSLOT; i++)
	{
		sb_printf(&o, "s%d*%d:", i, s->slot_refs[i]);
		if (s->slot_node[i])
			key_rec(s, s->slot_node[i], ren, &nren, &o);
		sb_putc(&o, ';');
	}
	uint64_t h = mc_hash(o.p, o.n, 31);
	sb_free(&o);
	return h;
}

/* release everything in the given slot order, checking put results and callbacks */
static void drain(struct st *s, const int *order, int check)
{
	cur = s;
	for (int oi = 0; oi < NSLOT; oi++)
	{
		int p = order[oi];
		while (s->slot_node[p] && !s->dead)
		{
			int pid = s->slot_node[p];
			struct json_object *rp = s->real[pid];
			int ncb0 = s->ncb;
			nexp = 0;
			take_ref_from_slot(s, p);
			release(s, pid);
			int want = !s->n[pid].alive;
			int rc = json_object_put(rp);
			if (check)
			{
				if (rc != want)
					fail(s, "put-return", "drain: put(s%d) returned %d, model %d", p, rc, want);
				else
				{
					char what[32];
					snprintf(what, sizeof what, "drain put(s%d)", p);
					check_after(s, what, ncb0);
				}
			}
		}
	}
	if (check && !s->dead)
	{
		/* every token ever issued: callback exactly once */
		for (int t = 1; t <= s->next_token; t++)
		{
			int cnt = 0;
			for (int j = 0; j < s->ncb; j++)
				cnt += s->cb_log[j] == t;
			if (cnt != 1)
			{
				fail(s, cnt ? "destroyed-twice" : "never-destroyed", "after releasing every reference the destruction callback of token %d ran %d time(s)", t, cnt);
				break;
			}
		}
	}
}
static const struct bfs_cb cb;
static void destroy(void *vs, int check)
{
	struct st *s = vs;
	static const int orders[6][3] = {{0, 1, 2}, {0, 2, 1}, {1, 0, 2}, {1, 2, 0}, {2, 0, 1}, {2, 1, 0}};
	cur = s;
	int dead = s->dead;
	if (check && !dead)
	{
		/* drain in every order on clones of this state (replayed), the state itself in order 0 */
		for (int o = 1; o < 6; o++)
		{
			/* orders that differ only in empty slots are the same */
			int nonempty = 0;
			for (int i = 0; i < NSLOT; i++)
				nonempty += s->slot_node[i] != 0;
			if (nonempty < 2 || (nonempty == 2 && o > 2 && 0))
				break;
			struct st *c = fresh();
			for (int i = 0; i < bfs_cur_n; i++)
				apply(c, bfs_cur_hist[i], 0);
			drain(c, orders[o], 1);
			int cdead = c->dead;
			free(c);
			MC_COUNT("drains", 1);
			if (vf_live() != 0 && !cdead)
			{
				/* the original state is still allocated: compare against its footprint below */
			}
			if (cdead)
			{
				dead = 1;
				break;
			}
		}
		cur = s;
	}
	if (!dead)
		drain(s, orders[0], check);
	else
	{
		/* a violation was reported: the remaining objects may be in any state; restart the worker */
		free(s);
		cur = NULL;
		mc_restart_worker();
		return;
	}
	dead = s->dead;
	free(s);
	cur = NULL;
	if (vf_live())
	{
		if (check && !dead)
			mc_violation("leak", "%ld blocks still allocated after every reference was released", vf_live());
		mc_restart_worker();
	}
}
static const struct bfs_cb cb = {fresh, apply, menu, key, destroy, opname};

/* ---------- scale: very many references to one node, very many children ---------- */
static int in_scale;
static char scaledesc[128];
static int sc_destroyed[2048];
static void sc_deleted(struct json_object *o, void *ud)
{
	(void)o;
	sc_destroyed[(int)(intptr_t)ud]++;
}
static int ud_deleted_calls;
static void *ud_static; /* the user data of the node under test; anything else is a duplicate made by a deep copy */
static void ud_deleted(struct json_object *o, void *ud)
{
	(void)o;
	if (ud && ud != ud_static)
	{
		vf_free(ud);
		return;
	}
	ud_deleted_calls++;
}
static int ud_serializer(struct json_object *o, struct printbuf *pb, int level, int flags)
{
	(void)o;
	(void)level;
	(void)flags;
	return printbuf_memappend(pb, "0", 1);
}
static void fam_scale(void)
{
	in_scale = 1;
	static const long counts[] = {255, 256, 65535, 65536, 70000, 200000};
	for (unsigned ci = 0; ci < sizeof counts / sizeof counts[0]; ci++)
		for (int kind = 0; kind < 3; kind++)
		{
			long n = counts[ci];
			snprintf(scaledesc, sizeof scaledesc, "scale references=%ld kind=%d", n, kind);
			if (!mc_case_begin())
				continue;
			memset(sc_destroyed, 0, sizeof sc_destroyed);
			struct json_object *x = kind == 0 ? json_object_new_string("shared") : kind == 1 ? json_object_new_array() : json_object_new_object();
			json_object_set_userdata(x, (void *)(intptr_t)1, sc_deleted);
			int bad = 0;
			for (long i = 0; i < n; i++)
				json_object_get(x);
			for (long i = 0; i < n && !bad; i++)
			{
				int rc = json_object_put(x);
				if (rc != 0 || sc_destroyed[1])
				{
					mc_violation("scale:destroyed-with-references-outstanding", "with %ld extra references taken, release number %ld reported %d (destruction callback ran %d times)", n,
					             i + 1, rc, sc_destroyed[1]);
					bad = 1;
				}
			}
			MC_COUNT("calls", 2 * n);
			if (!bad)
			{
				if (json_object_put(x) != 1 || sc_destroyed[1] != 1)
					mc_violation("scale:last-release", "the last of %ld+1 releases did not destroy the node exactly once", n);
			}
			if (bad || vf_live())
			{
				if (!bad)
					mc_violation("leak", "%ld blocks live", vf_live());
				mc_restart_worker();
			}
			mc_nontrivial(mc_hash_str(scaledesc));
			mc_sample_current();
		}
	/* the same node stored many times in one array / many distinct children in one container */
	static const int widths[] = {100, 300, 1000};
	for (unsigned wi = 0; wi < 3; wi++)
		for (int kind = 0; kind < 2; kind++)
		{
			int n = widths[wi];
			snprintf(scaledesc, sizeof scaledesc, "scale children=%d container=%s", n, kind ? "object" : "array");
			if (!mc_case_begin())
				continue;
			memset(sc_destroyed, 0, sizeof sc_destroyed);
			struct json_object *c = kind ? json_object_new_object() : json_object_new_array();
			struct json_object *shared = json_object_new_int(7);
			json_object_set_userdata(shared, (void *)(intptr_t)2000, sc_deleted);
			for (int i = 0; i < n; i++)
			{
				struct json_object *ch = json_object_new_int(i);
				json_object_set_userdata(ch, (void *)(intptr_t)(i + 1), sc_deleted);
				char k[16];
				snprintf(k, sizeof k, "k%d", i);
				if (kind)
				{
					json_object_object_add(c, k, ch);
					if (i % 3 == 0)
					{
						snprintf(k, sizeof k, "s%d", i);
						json_object_object_add(c, k, json_object_get(shared));
					}
				}
				else
				{
					json_object_array_add(c, ch);
					if (i % 3 == 0)
						json_object_array_add(c, json_object_get(shared));
				}
			}
			/* remove every other child while holding one of them */
			struct json_object *held = kind ? json_object_object_get(c, "k1") : json_object_array_get_idx(c, 2);
			json_object_get(held);
			if (kind)
				for (int i = 0; i < n; i += 2)
				{
					char k[16];
					snprintf(k, sizeof k, "k%d", i);
					json_object_object_del(c, k);
				}
			else
				json_object_array_del_idx(c, 0, (size_t)n / 2);
			MC_COUNT("calls", 3 * n);
			int rc = json_object_put(c);
			if (rc != 1)
				mc_violation("scale:container-not-freed", "put(container) returned %d", rc);
			if (sc_destroyed[2000])
				mc_violation("scale:destroyed-with-references-outstanding", "the shared child was destroyed with the container although the caller still holds a reference");
			if (json_object_get_int(shared) != 7 || json_object_put(shared) != 1 || sc_destroyed[2000] != 1)
				mc_violation("scale:last-release", "the shared child was not destroyed exactly at its last release");
			if (json_object_put(held) != 1)
				mc_violation("scale:last-release", "the held child was not freed by its last release");
			for (int i = 1; i <= n; i++)
				if (sc_destroyed[i] != 1)
				{
					mc_violation("scale:child-lifetime", "child #%d of %d destroyed %d times", i, n, sc_destroyed[i]);
					break;
				}
			if (vf_live())
			{
				mc_violation("leak", "%ld blocks live", vf_live());
				mc_restart_worker();
			}
			mc_nontrivial(mc_hash_str(scaledesc));
			mc_sample_current();
		}
	/* ---- user data and value setters: a node's destruction callback runs at its last release and
	 * at no other call - in particular not when its VALUE is changed.  (Documented exceptions:
	 * set_userdata / set_serializer replace the user data and run the old callback;
	 * json_object_set_double drops only the retained text installed by new_double_s.) ---- */
	static const char *const installers[] = {"set_userdata", "set_serializer(custom function)", "set_serializer(json_object_userdata_to_json_string)"};
	static const char *const kinds[] = {"int", "uint64", "double", "double_s", "boolean", "string", "array", "object"};
	for (int kind = 0; kind < 8; kind++)
		for (int inst = 0; inst < 3; inst++)
			for (int held = 0; held < 2; held++)
			{
				if (kind == 3 && inst == 0)
					continue; /* documented: a new_double_s node uses its userdata field itself, it cannot hold other data */
				snprintf(scaledesc, sizeof scaledesc, "scale userdata kind=%s installer=%s in-container=%d", kinds[kind], installers[inst], held);
				if (!mc_case_begin())
					continue;
				memset(sc_destroyed, 0, sizeof sc_destroyed);
				struct json_object *x = kind == 0 ? json_object_new_int(5) : kind == 1 ? json_object_new_uint64(UINT64_MAX) : kind == 2 ? json_object_new_double(1.5)
				                        : kind == 3 ? json_object_new_double_s(1.5, "1.50") : kind == 4 ? json_object_new_boolean(1) : kind == 5 ? json_object_new_string("text")
				                        : kind == 6 ? json_object_new_array() : json_object_new_object();
				/* the user data is a real C string (the third installer prints it), its address is the token */
				static char tokstr[] = "\"user-text\"";
				void *ud = tokstr;
				ud_static = ud;
				if (inst == 0)
					json_object_set_userdata(x, ud, ud_deleted);
				else if (inst == 1)
					json_object_set_serializer(x, ud_serializer, ud, ud_deleted);
				else
					json_object_set_serializer(x, json_object_userdata_to_json_string, ud, ud_deleted);
				struct json_object *parent = NULL;
				if (held)
				{
					parent = json_object_new_array();
					json_object_array_add(parent, json_object_get(x)); /* the container and the caller each hold one reference */
				}
				ud_deleted_calls = 0;
				const char *step = "";
#define UD_STEP(name, call)                                                                                                                             \
	do                                                                                                                                                      \
	{                                                                                                                                                       \
		step = name;                                                                                                                                        \
		call;                                                                                                                                               \
		if (ud_deleted_calls || json_object_get_userdata(x) != ud)                                                                                          \
		{                                                                                                                                                   \
			mc_violation("callback-at-value-change", "%s on a %s node with user data installed by %s: destruction callback ran %d time(s), user data %s", step, \
			             kinds[kind], installers[inst], ud_deleted_calls, json_object_get_userdata(x) == ud ? "kept" : "lost");                                 \
			goto ud_done;                                                                                                                                   \
		}                                                                                                                                                   \
	} while (0)
				switch (kind)
				{
				case 0:
				case 1:
					UD_STEP("set_int", json_object_set_int(x, 7));
					UD_STEP("set_int64", json_object_set_int64(x, -9));
					UD_STEP("set_uint64", json_object_set_uint64(x, 3));
					UD_STEP("int_inc", json_object_int_inc(x, 40));
					break;
				case 2:
					UD_STEP("set_double", json_object_set_double(x, 2.5));
					UD_STEP("set_double again", json_object_set_double(x, -0.0));
					break;
				case 3:
					/* new_double_s installed its own (private) serializer and text; the installer above
					 * replaced them - from here on the node behaves like any double with user data */
					UD_STEP("set_double", json_object_set_double(x, 2.5));
					break;
				case 4: UD_STEP("set_boolean", json_object_set_boolean(x, 0)); break;
				case 5:
					UD_STEP("set_string (longer)", json_object_set_string(x, "a considerably longer text than before, beyond inline storage"));
					UD_STEP("set_string_len (shorter)", json_object_set_string_len(x, "ab", 2));
					UD_STEP("set_string (empty)", json_object_set_string(x, ""));
					break;
				case 6:
					UD_STEP("array_add", json_object_array_add(x, json_object_new_int(1)));
					UD_STEP("array_put_idx", json_object_array_put_idx(x, 3, json_object_new_int(2)));
					UD_STEP("array_del_idx", json_object_array_del_idx(x, 0, 2));
					UD_STEP("array_shrink", json_object_array_shrink(x, 0));
					break;
				default:
					UD_STEP("object_add", json_object_object_add(x, "k", json_object_new_int(1)));
					UD_STEP("object_add (replace)", json_object_object_add(x, "k", json_object_new_int(2)));
					UD_STEP("object_del", json_object_object_del(x, "k"));
					break;
				}
				if (inst != 1)
					UD_STEP("to_json_string", (void)json_object_to_json_string(x));
				{
					/* a deep copy with the default shallow copy: either it succeeds (the text-holding public
					 * serializer) or it is refused (user data the library cannot duplicate) - in both cases
					 * the SOURCE's callback stays quiet and a refused copy leaves nothing behind */
					struct json_object *cp = NULL;
					int rc = 0;
					UD_STEP("deep_copy", rc = json_object_deep_copy(held ? parent : x, &cp, NULL));
					if (rc == 0 && cp)
					{
						if (inst == 2)
							json_object_put(cp); /* the copy owns a duplicate of the text and frees it itself */
						else
						{
							mc_violation("copy-of-custom-serializer-not-refused", "deep copy of a %s node with user data installed by %s succeeded", kinds[kind], installers[inst]);
							json_object_put(cp);
						}
					}
					else if (cp)
					{
						mc_violation("failed-copy-leaves-destination", "the refused deep copy left a destination object");
						json_object_put(cp);
					}
				}
				if (held)
				{
					UD_STEP("release of the container", json_object_put(parent));
					parent = NULL;
				}
				if (json_object_put(x) != 1 || ud_deleted_calls != 1)
					mc_violation("scale:last-release", "last release of the %s node: destruction callback ran %d time(s)", kinds[kind], ud_deleted_calls);
				x = NULL;
			ud_done:
				if (x)
				{
					json_object_set_userdata(x, NULL, NULL);
					json_object_put(x);
				}
				if (parent)
					json_object_put(parent);
				if (vf_live())
				{
					mc_violation("leak", "%ld blocks live", vf_live());
					mc_restart_worker();
				}
				mc_nontrivial(mc_hash_str(scaledesc));
				mc_sample_current();
			}
	in_scale = 0;
}
static void describe(sb_t *o)
{
	if (in_scale)
	{
		sb_puts(o, scaledesc);
		return;
	}
	bfs_describe(&cb, o);
}
static void enumerate(void)
{
	struct bfs_stats st;
	bfs_run(&cb, (int)mc_opt_int("depth", mc_tier ? 7 : 6), mc_tier ? 3000000 : 1500000, &st);
	MC_COUNT("states", st.states);
	MC_COUNT("transitions", st.transitions);
	MC_MAX("depth_completed", st.max_depth_done);
	fam_scale();
}
static int replay(const char *desc)
{
	if (strstr(desc, "scale "))
	{
		fam_scale();
		return (int)mc_violations();
	}
	bfs_replay(&cb, desc);
	return (int)mc_violations();
}
int main(int argc, char **argv)
{
	struct mc_harness h = {"c05", enumerate, describe, replay};
	return mc_main(argc, argv, &h);
}
