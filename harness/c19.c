/* C19 - the print buffer is a byte array: NUL-terminated after appends, in bounds.
 * Explicit-state BFS over operation histories with boundary-relative arguments;
 * oracle = byte-array model after every transition; sanitizer build. */
#include "mc.h"
#include "printbuf.h"
#include <errno.h>
#include <limits.h>
#include <stdlib.h>
#include <string.h>

#define MODEL_CAP (1 << 18)
struct st
{
	struct printbuf *pb;
	unsigned char *m; /* model bytes */
	int len;
	int started; /* the initial-state choice (pre-filled size) has been made */
	int cap_size; /* growth cap for this history */
	int dead; /* a check failed: stop judging this history */
};

static char pat(int p)
{
	return (char)('a' + (p % 23));
}

/* op encoding: kind*64 + arg index */
enum
{
	K_APPEND,
	K_APPEND_FAST,
	K_MEMSET,
	K_SPRINT,
	K_RESET,
	K_REFUSED_GROWTH, /* an append / formatted print whose buffer growth the allocator refuses: -1, nothing changed, nothing leaked */
	K_START /* first step: start from a buffer already holding this many bytes (non-initial states) */
};
static const int start_fill[] = {0, 31, 4000, 8190, 16383, 65530};
#define NSTART 6
#define NAPP 11
#define NFAST 7
#define NOFF 9
#define NLEN 8
#define NSPR 6
static const int sprint_sizes[NSPR] = {0, 5, 127, 128, 129, 300};

static int app_arg(const struct st *s, int idx)
{
	int size = s->pb->size, bpos = s->pb->bpos, room = size - bpos;
	switch (idx)
	{
	case 0: return 0;
	case 1: return 1;
	case 2: return room - 2;
	case 3: return room - 1;
	case 4: return room;
	case 5: return room + 1;
	case 6: return 2 * size;
	case 7: return -1;
	case 8: return INT_MAX - bpos - 1;
	case 9: return INT_MAX - bpos;
	default: return INT_MAX - bpos - 9;
	}
}
static int off_arg(const struct st *s, int idx)
{
	int size = s->pb->size, bpos = s->pb->bpos;
	switch (idx)
	{
	case 0: return -1;
	case 1: return 0;
	case 2: return bpos - 1;
	case 3: return bpos;
	case 4: return bpos + 1;
	case 5: return size - 1;
	case 6: return size;
	case 7: return size + 3;
	default: return -2;
	}
}
static int len_arg(const struct st *s, int off, int idx)
{
	int size = s->pb->size;
	int eff = off == -1 ? s->pb->bpos : off;
	switch (idx)
	{
	case 0: return 0;
	case 1: return 1;
	case 2: return size - eff - 1;
	case 3: return size - eff;
	case 4: return size - eff + 1;
	case 5: return eff >= 0 ? INT_MAX - eff : INT_MAX;
	case 6: return eff > 0 ? INT_MAX - eff + 1 : INT_MAX;
	default: return -1;
	}
}

static void opname(int op, sb_t *o)
{
	int kind = op >> 8, a = op & 255;
	switch (kind)
	{
	case K_APPEND: sb_printf(o, "memappend(arg#%d)", a); break;
	case K_APPEND_FAST: sb_printf(o, "memappend_fast(arg#%d)", a); break;
	case K_MEMSET: sb_printf(o, "memset(off#%d,len#%d)", a / NLEN, a % NLEN); break;
	case K_SPRINT: sb_printf(o, "sprintbuf(%d bytes)", sprint_sizes[a]); break;
	case K_RESET: sb_puts(o, "reset"); break;
	case K_REFUSED_GROWTH: sb_printf(o, "%s with its buffer growth refused", a == 0 ? "memappend(room+1)" : a == 1 ? "sprintbuf(300 bytes)" : "memset(bpos, size)"); break;
	case K_START: sb_printf(o, "start with %d bytes", start_fill[a]); break;
	}
}

static void *fresh(void)
{
	struct st *s = calloc(1, sizeof *s);
	s->pb = printbuf_new();
	s->m = malloc(MODEL_CAP);
	return s;
}
static void fail(struct st *s, const char *sig, const char *fmt, ...)
{
	char msg[600];
	va_list ap;
	va_start(ap, fmt);
	vsnprintf(msg, sizeof msg, fmt, ap);
	va_end(ap);
	mc_violation(sig, "%s", msg);
	s->dead = 1;
}
static void compare(struct st *s, int need_term, const char *what)
{
	struct printbuf *pb = s->pb;
	if (pb->bpos != s->len)
	{
		fail(s, "length-differs-from-model", "%s: bpos %d, model length %d", what, pb->bpos, s->len);
		return;
	}
	if (pb->bpos > pb->size || pb->size < 1)
	{
		fail(s, "bpos-beyond-size", "%s: bpos %d, size %d", what, pb->bpos, pb->size);
		return;
	}
	if ((size_t)pb->size > vf_block_size(pb->buf))
		fail(s, "size-field-beyond-allocation", "%s: size field %d, allocated %zu", what, pb->size, vf_block_size(pb->buf));
	if (memcmp(pb->buf, s->m, (size_t)s->len))
	{
		int k = 0;
		while (pb->buf[k] == (char)s->m[k])
			k++;
		fail(s, "contents-differ-from-model", "%s: byte %d is 0x%02x, model has 0x%02x (length %d)", what, k, (unsigned char)pb->buf[k], s->m[k], s->len);
		return;
	}
	if (need_term)
	{
		if (pb->bpos >= pb->size)
			fail(s, "no-room-for-terminator", "%s: bpos %d == size %d", what, pb->bpos, pb->size);
		else if (pb->buf[pb->bpos] != 0)
			fail(s, "not-terminated", "%s: byte after the contents is 0x%02x", what, (unsigned char)pb->buf[pb->bpos]);
	}
}

static char srcbuf[MODEL_CAP];
static void apply(void *vs, int op, int check)
{
	struct st *s = vs;
	if (s->dead)
		return;
	struct printbuf *pb = s->pb;
	int kind = op >> 8, a = op & 255;
	char what[64];
	int before_bpos = pb->bpos;
	switch (kind)
	{
	case K_APPEND:
	case K_APPEND_FAST:
	{
		int n = app_arg(s, a);
		int feasible = n >= 0 && (long)s->len + n + 9 < MODEL_CAP;
		if (n >= 0 && n < MODEL_CAP)
			for (int k = 0; k < n; k++)
				srcbuf[k] = pat(s->len + k);
		errno = mc_errno_pre;
		int rc;
		MC_COUNT("calls", 1);
		if (kind == K_APPEND)
			rc = printbuf_memappend(pb, srcbuf, n);
		else
		{
			rc = n;
			printbuf_memappend_fast(pb, srcbuf, n);
		}
		if (!check)
		{
			if (feasible && pb->bpos == before_bpos + n)
			{
				memcpy(s->m + s->len, srcbuf, (size_t)n);
				s->len += n;
			}
			return;
		}
		snprintf(what, sizeof what, "memappend%s(%d)", kind == K_APPEND ? "" : "_fast", n);
		if (feasible)
		{
			if (kind == K_APPEND && rc != n)
			{
				fail(s, "append-failed", "%s returned %d (errno %d) for a satisfiable request", what, rc, errno);
				return;
			}
			memcpy(s->m + s->len, srcbuf, (size_t)n);
			s->len += n;
			compare(s, 1, what);
		}
		else
		{
			/* refused by the guards (must_fail) or by the allocator (huge): -1, unchanged */
			if (kind == K_APPEND && rc != -1)
				fail(s, "huge-append-not-refused", "%s returned %d", what, rc);
			compare(s, 0, what);
		}
		break;
	}
	case K_MEMSET:
	{
		int off = off_arg(s, a / NLEN);
		int n = len_arg(s, off, a % NLEN);
		int eff = off == -1 ? s->len : off;
		int valid = off >= -1 && n >= 0 && n <= INT_MAX - eff;
		int feasible = valid && (long)eff + n + 9 < MODEL_CAP;
		errno = mc_errno_pre;
		MC_COUNT("calls", 1);
		int rc = printbuf_memset(pb, off, 'M', n);
		snprintf(what, sizeof what, "memset(%d,'M',%d)", off, n);
		if (feasible)
		{
			if (check && rc != 0)
			{
				fail(s, "memset-failed", "%s returned %d (errno %d) for a satisfiable request", what, rc, errno);
				return;
			}
			if (rc == 0)
			{
				if (s->len < eff)
					memset(s->m + s->len, 0, (size_t)(eff - s->len));
				memset(s->m + eff, 'M', (size_t)n);
				if (s->len < eff + n)
					s->len = eff + n;
			}
			if (check)
				compare(s, 0, what);
		}
		else if (check)
		{
			if (rc != -1)
				fail(s, "huge-memset-not-refused", "%s returned %d", what, rc);
			compare(s, 0, what);
		}
		break;
	}
	case K_SPRINT:
	{
		int n = sprint_sizes[a];
		for (int k = 0; k < n; k++)
			srcbuf[k] = pat(s->len + k);
		srcbuf[n] = 0;
		int feasible = (long)s->len + n + 9 < MODEL_CAP;
		MC_COUNT("calls", 1);
		int rc;
		if (n == 5 || n == 129)
		{
			/* a formatted text with a NUL byte inside (%c with 0), short and beyond the 128-byte stack buffer */
			int h = n / 2;
			static char tail[512];
			memcpy(tail, srcbuf + h + 1, (size_t)(n - h - 1));
			tail[n - h - 1] = 0;
			srcbuf[h] = 0; /* the model bytes: the pattern with byte h replaced by NUL */
			rc = sprintbuf(pb, "%s%c%s", srcbuf, 0, tail);
		}
		else
			rc = n ? sprintbuf(pb, "%s", srcbuf) : sprintbuf(pb, "%s", "");
		snprintf(what, sizeof what, "sprintbuf(%d bytes%s)", n, (n == 5 || n == 129) ? ", a NUL inside" : "");
		if (feasible)
		{
			if (check && rc != n)
			{
				fail(s, "sprintbuf-failed", "%s returned %d", what, rc);
				return;
			}
			if (rc == n)
			{
				memcpy(s->m + s->len, srcbuf, (size_t)n);
				s->len += n;
			}
			if (check)
				compare(s, 1, what);
		}
		break;
	}
	case K_REFUSED_GROWTH:
	{
		long live0 = vf_live();
		int room = pb->size - pb->bpos, n = a == 1 ? 300 : room + 1, rc;
		if (n >= MODEL_CAP || (a == 1 && room > 301))
			break; /* no growth would be needed */
		for (int k = 0; k < n; k++)
			srcbuf[k] = 'F';
		srcbuf[n] = 0;
		MC_COUNT("calls", 1);
		/* the formatted print first allocates its temporary (1st call), the growth is the next one */
		vf_fail_plan(vf_alloc_calls() + (a == 1 ? 2 : 1), 0);
		if (a == 0)
			rc = printbuf_memappend(pb, srcbuf, n);
		else if (a == 1)
			rc = sprintbuf(pb, "%s", srcbuf);
		else
			rc = printbuf_memset(pb, pb->bpos, 'F', pb->size);
		int fired = vf_fail_fired();
		vf_fail_plan(0, 0);
		snprintf(what, sizeof what, "%s with its growth refused", a == 0 ? "memappend" : a == 1 ? "sprintbuf(300)" : "memset");
		if (!fired)
		{
			/* no growth was attempted after all: then the call was an ordinary one */
			if (rc >= 0 && a != 2)
			{
				memcpy(s->m + s->len, srcbuf, (size_t)n);
				s->len += n;
			}
			else if (rc >= 0)
			{
				memset(s->m + s->len, 'F', (size_t)pb->bpos - (size_t)s->len);
				s->len = pb->bpos;
			}
			if (check)
				compare(s, a != 2, what);
			break;
		}
		if (check && rc != -1)
			fail(s, "refused-growth-not-reported", "%s returned %d", what, rc);
		if (check && vf_live() != live0)
			fail(s, "leak", "%s: %ld block(s) allocated by the refused call were not released", what, vf_live() - live0);
		if (check)
			compare(s, 0, what);
		break;
	}
	case K_RESET:
		printbuf_reset(pb);
		s->len = 0;
		if (check)
			compare(s, 1, "reset");
		break;
	case K_START:
	{
		int n = start_fill[a];
		s->started = 1;
		s->cap_size = n < 256 ? 4096 : n < 8000 ? 5 * n / 2 : 4 * n;
		/* filled in uneven pieces so that the doublings happen at different fill levels */
		while (s->len < n)
		{
			int piece = n - s->len < 997 ? n - s->len : 997;
			for (int k = 0; k < piece; k++)
				srcbuf[k] = pat(s->len + k);
			if (printbuf_memappend(pb, srcbuf, piece) != piece)
			{
				fail(s, "append-failed", "pre-fill append of %d bytes at %d failed", piece, s->len);
				return;
			}
			memcpy(s->m + s->len, srcbuf, (size_t)piece);
			s->len += piece;
		}
		if (check)
			compare(s, 1, "pre-fill");
		break;
	}
	}
}

static int menu(void *vs, int *ops, int cap)
{
	struct st *s = vs;
	int n = 0;
	if (s->dead)
		return 0;
	(void)cap;
	if (!s->started)
	{
		int ns = mc_tier ? NSTART : 3;
		for (int a = 0; a < ns; a++)
			ops[n++] = (K_START << 8) | a;
		return n;
	}
	if (s->pb->size > s->cap_size || s->len > 2 * s->cap_size || s->len + 2 * s->pb->size + 400 >= MODEL_CAP)
		return 0;
	for (int a = 0; a < NAPP; a++)
		ops[n++] = (K_APPEND << 8) | a;
	for (int a = 0; a < NFAST; a++)
	{
		int v = app_arg(s, a);
		if (v >= 0) /* the macro's contract: non-negative sizes */
			ops[n++] = (K_APPEND_FAST << 8) | a;
	}
	for (int o = 0; o < NOFF; o++)
		for (int l = 0; l < NLEN; l++)
			ops[n++] = (K_MEMSET << 8) | (o * NLEN + l);
	for (int a = 0; a < NSPR; a++)
		ops[n++] = (K_SPRINT << 8) | a;
	ops[n++] = K_RESET << 8;
	for (int a = 0; a < 3; a++)
		ops[n++] = (K_REFUSED_GROWTH << 8) | a;
	return n;
}
static uint64_t key(void *vs)
{
	struct st *s = vs;
	uint64_t h = mc_hash(s->pb->buf, (size_t)(s->pb->bpos < s->pb->size ? s->pb->bpos : s->pb->size), 11);
	h = mc_hash(&s->pb->bpos, sizeof(int), h);
	h = mc_hash(&s->pb->size, sizeof(int), h);
	h = mc_hash(&s->dead, sizeof(int), h);
	h = mc_hash(&s->started, sizeof(int), h);
	return h;
}
static void destroy(void *vs, int check)
{
	struct st *s = vs;
	printbuf_free(s->pb);
	free(s->m);
	free(s);
	if (check && vf_live())
	{
		mc_violation("leak", "%ld blocks live after printbuf_free", vf_live());
		mc_restart_worker();
	}
}

static const struct bfs_cb cb = {fresh, apply, menu, key, destroy, opname};
static void describe(sb_t *o)
{
	bfs_describe(&cb, o);
}
static void enumerate(void)
{
	struct bfs_stats st;
	bfs_run(&cb, (int)mc_opt_int("depth", mc_tier ? 6 : 5), mc_tier ? 12000000 : 3000000, &st);
	MC_COUNT("states", st.states);
	MC_COUNT("transitions", st.transitions);
	MC_MAX("depth_completed", st.max_depth_done);
}
static int replay(const char *desc)
{
	bfs_replay(&cb, desc);
	return (int)mc_violations();
}
int main(int argc, char **argv)
{
	struct mc_harness h = {"c19", enumerate, describe, replay};
	return mc_main(argc, argv, &h);
}
