/* C06 - a JSON object is an insertion-ordered map.
 * level=a: lh_table directly, tiny tables, harness-supplied hash/equality, every hash
 *          assignment x initial size, explored to a fix-point.
 * level=b: through json_object with real string keys, both string hashes, scripted seed. */
#include "mc.h"
#include "json.h"
#include "json_visit.h"
#include "linkhash.h"
#include <errno.h>
#include <stdlib.h>
#include <string.h>

/* ====================== level A ====================== */
#define NK 4
static int nkeys = 3;
static int key_ids[NK] = {0, 1, 2, 3};
static int hash_of[NK];
static int init_size;
static char cfgdesc[96];

static unsigned long a_hash(const void *k)
{
	return (unsigned long)hash_of[*(const int *)k];
}
static int a_equal(const void *x, const void *y)
{
	return *(const int *)x == *(const int *)y;
}
struct ast
{
	struct lh_table *t;
	int mk[NK], mv[NK], mc[NK]; /* model: ordered keys, values, constant flag */
	int n;
	int next_val;
	int freed_log[64], nfreed; /* values passed to free_fn */
	int dead;
};
static struct ast *cur_a;
static void a_free(struct lh_entry *e)
{
	if (cur_a && cur_a->nfreed < 64)
		cur_a->freed_log[cur_a->nfreed++] = (int)(intptr_t)lh_entry_v(e);
}
enum
{
	A_INSERT,
	A_INSERT_CONST,
	A_DELETE,
	A_DELETE_ENTRY,
	A_RESIZE
};
static void a_opname(int op, sb_t *o)
{
	static const char *n[] = {"insert", "insert(constant-key)", "delete", "delete_entry", "resize"};
	static const char *rs[] = {"1", "size", "2*size"};
	if ((op >> 8) == A_RESIZE)
		sb_printf(o, "resize(%s)", rs[op & 255]);
	else
		sb_printf(o, "%s(k%d)", n[op >> 8], op & 255);
}
static void *a_fresh(void)
{
	struct ast *s = calloc(1, sizeof *s);
	cur_a = s;
	s->t = lh_table_new(init_size, a_free, a_hash, a_equal);
	s->next_val = 100;
	return s;
}
static void a_fail(struct ast *s, const char *sig, const char *fmt, ...)
{
	char msg[600];
	va_list ap;
	va_start(ap, fmt);
	vsnprintf(msg, sizeof msg, fmt, ap);
	va_end(ap);
	mc_violation(sig, "[%s] %s", cfgdesc, msg);
	s->dead = 1;
}
static int model_find(struct ast *s, int k)
{
	for (int i = 0; i < s->n; i++)
		if (s->mk[i] == k)
			return i;
	return -1;
}
static void a_compare(struct ast *s, const char *what)
{
	struct lh_table *t = s->t;
	if (lh_table_length(t) != s->n)
	{
		a_fail(s, "length-differs-from-model", "%s: length %d, model %d", what, lh_table_length(t), s->n);
		return;
	}
	for (int k = 0; k < nkeys; k++)
	{
		void *v = (void *)0x55;
		int found = lh_table_lookup_ex(t, &key_ids[k], &v);
		int mi = model_find(s, k);
		if (!!found != (mi >= 0))
		{
			a_fail(s, found ? "lookup-finds-deleted-key" : "lookup-misses-live-key", "%s: lookup(k%d) %s, model %s", what, k, found ? "found" : "not found",
			       mi >= 0 ? "has it" : "does not");
			return;
		}
		if (found && (int)(intptr_t)v != s->mv[mi])
		{
			a_fail(s, "lookup-wrong-value", "%s: lookup(k%d) value %d, model %d", what, k, (int)(intptr_t)v, s->mv[mi]);
			return;
		}
		/* the other lookup entry points agree: by entry, by entry with a precomputed hash, as a membership test */
		struct lh_entry *e1 = lh_table_lookup_entry(t, &key_ids[k]);
		struct lh_entry *e2 = lh_table_lookup_entry_w_hash(t, &key_ids[k], lh_get_hash(t, &key_ids[k]));
		if (e1 != e2 || !!e1 != !!found || (e1 && lh_entry_v(e1) != v) || !!lh_table_lookup_ex(t, &key_ids[k], NULL) != !!found)
		{
			a_fail(s, "lookup-entry-points-differ", "%s: lookup_ex, lookup_entry and lookup_entry_w_hash disagree on k%d", what, k);
			return;
		}
		if (!found && v != NULL)
		{
			a_fail(s, "lookup-miss-leaves-value", "%s: failed lookup did not clear *v", what);
			return;
		}
	}
	/* forward iteration */
	int i = 0;
	struct lh_entry *e, *last = NULL;
	lh_foreach(t, e)
	{
		if (i >= s->n)
		{
			a_fail(s, "iteration-too-long", "%s: iteration yields more than %d entries", what, s->n);
			return;
		}
		int k = *(const int *)lh_entry_k(e);
		if (k != s->mk[i] || (int)(intptr_t)lh_entry_v(e) != s->mv[i])
		{
			a_fail(s, "iteration-order-differs", "%s: position %d holds k%d=%d, model k%d=%d", what, i, k, (int)(intptr_t)lh_entry_v(e), s->mk[i], s->mv[i]);
			return;
		}
		if (!!lh_entry_k_is_constant(e) != !!s->mc[i])
		{
			a_fail(s, "constant-flag-lost", "%s: entry k%d constant flag %d, model %d", what, k, lh_entry_k_is_constant(e), s->mc[i]);
			return;
		}
		if (lh_entry_prev(e) != last)
		{
			a_fail(s, "prev-link-broken", "%s: prev link of position %d wrong", what, i);
			return;
		}
		last = e;
		i++;
	}
	if (i != s->n)
	{
		a_fail(s, "iteration-too-short", "%s: iteration yields %d entries, model %d", what, i, s->n);
		return;
	}
	if (t->tail != last)
		a_fail(s, "tail-wrong", "%s: tail does not point to the last entry", what);
}
static void a_apply(void *vs, int op, int check)
{
	struct ast *s = vs;
	cur_a = s;
	if (s->dead)
		return;
	int kind = op >> 8, k = op & 255;
	char what[64];
	sb_t w;
	sb_init_fixed(&w, what, sizeof what);
	a_opname(op, &w);
	int nf0 = s->nfreed;
	int expect_freed = -1;
	MC_COUNT("calls", 1);
	switch (kind)
	{
	case A_INSERT:
	case A_INSERT_CONST:
	{
		int v = s->next_val++;
		unsigned opts = kind == A_INSERT_CONST ? JSON_C_OBJECT_ADD_CONSTANT_KEY : 0;
		int rc = lh_table_insert_w_hash(s->t, &key_ids[k], (void *)(intptr_t)v, lh_get_hash(s->t, &key_ids[k]), opts);
		if (rc != 0)
		{
			a_fail(s, "insert-failed", "%s returned %d", what, rc);
			return;
		}
		s->mk[s->n] = k;
		s->mv[s->n] = v;
		s->mc[s->n] = kind == A_INSERT_CONST;
		s->n++;
		break;
	}
	case A_DELETE:
	case A_DELETE_ENTRY:
	{
		int mi = model_find(s, k);
		int rc;
		if (kind == A_DELETE)
			rc = lh_table_delete(s->t, &key_ids[k]);
		else
		{
			struct lh_entry *e = lh_table_lookup_entry(s->t, &key_ids[k]);
			if (!!e != (mi >= 0))
			{
				a_fail(s, "lookup-entry-disagrees", "%s: lookup_entry %s, model %s", what, e ? "found" : "NULL", mi >= 0 ? "present" : "absent");
				return;
			}
			rc = e ? lh_table_delete_entry(s->t, e) : -1;
		}
		if ((rc == 0) != (mi >= 0))
		{
			a_fail(s, "delete-return", "%s returned %d, model key %s", what, rc, mi >= 0 ? "present" : "absent");
			return;
		}
		if (mi >= 0)
		{
			expect_freed = s->mv[mi];
			for (int i = mi; i + 1 < s->n; i++)
			{
				s->mk[i] = s->mk[i + 1];
				s->mv[i] = s->mv[i + 1];
				s->mc[i] = s->mc[i + 1];
			}
			s->n--;
		}
		break;
	}
	case A_RESIZE:
	{
		int ns = k == 0 ? 1 : k == 1 ? s->t->size : s->t->size * 2;
		int rc = lh_table_resize(s->t, ns);
		if (rc != 0)
			a_fail(s, "resize-failed", "%s returned %d", what, rc);
		break;
	}
	}
	if (!check || s->dead)
		return;
	if (expect_freed >= 0)
	{
		if (s->nfreed != nf0 + 1 || s->freed_log[nf0] != expect_freed)
			a_fail(s, "free-callback-on-delete", "%s: free callback ran %d time(s) (value %d), expected once with value %d", what, s->nfreed - nf0,
			       s->nfreed > nf0 ? s->freed_log[nf0] : -1, expect_freed);
	}
	else if (s->nfreed != nf0)
		a_fail(s, "spurious-free-callback", "%s: free callback ran though nothing was deleted", what);
	if (!s->dead)
		a_compare(s, what);
}
static int a_menu(void *vs, int *ops, int cap)
{
	struct ast *s = vs;
	int n = 0;
	(void)cap;
	if (s->dead)
		return 0;
	for (int k = 0; k < nkeys; k++)
	{
		if (model_find(s, k) < 0)
		{
			ops[n++] = (A_INSERT << 8) | k;
			ops[n++] = (A_INSERT_CONST << 8) | k;
		}
		ops[n++] = (A_DELETE << 8) | k;
		ops[n++] = (A_DELETE_ENTRY << 8) | k;
	}
	/* resize below the live count is outside the property (and the API contract): not generated */
	ops[n++] = (A_RESIZE << 8) | 1;
	if (s->t->size * 2 <= 16)
		ops[n++] = (A_RESIZE << 8) | 2;
	return n;
}
static uint64_t a_key(void *vs)
{
	struct ast *s = vs;
	unsigned char kb[128];
	int n = 0;
	kb[n++] = (unsigned char)s->dead;
	kb[n++] = (unsigned char)s->t->size;
	for (int i = 0; i < s->t->size && n < 100; i++)
	{
		const void *k = s->t->table[i].k;
		kb[n++] = k == LH_EMPTY ? 250 : k == LH_FREED ? 251 : (unsigned char)(*(const int *)k * 2 + (s->t->table[i].k_is_constant ? 1 : 0));
	}
	kb[n++] = 255;
	for (int i = 0; i < s->n; i++)
		kb[n++] = (unsigned char)s->mk[i];
	return mc_hash(kb, (size_t)n, 17);
}
static void a_destroy(void *vs, int check)
{
	struct ast *s = vs;
	cur_a = s;
	int nf0 = s->nfreed;
	lh_table_free(s->t);
	if (check && !s->dead)
	{
		if (s->nfreed - nf0 != s->n)
			mc_violation("free-callback-on-table-free", "[%s] table_free ran the free callback %d time(s) for %d live entries", cfgdesc, s->nfreed - nf0, s->n);
		else
			for (int i = 0; i < s->n; i++)
				if (s->freed_log[nf0 + i] != s->mv[i])
				{
					mc_violation("free-callback-on-table-free", "[%s] table_free released value %d where the model has %d", cfgdesc, s->freed_log[nf0 + i], s->mv[i]);
					break;
				}
	}
	cur_a = NULL;
	free(s);
	if (vf_live())
	{
		if (check)
			mc_violation("leak", "[%s] %ld blocks live after lh_table_free", cfgdesc, vf_live());
		mc_restart_worker();
	}
}
static const struct bfs_cb acb = {a_fresh, a_apply, a_menu, a_key, a_destroy, a_opname};

static void level_a(void)
{
	static const int hv[5] = {0, 1, 2, 3, 5};
	nkeys = mc_tier ? 4 : 3;
	int nass = 1;
	for (int k = 0; k < nkeys; k++)
		nass *= 5;
	bfs_shard_mode = 1;
	long cfg = 0;
	for (int a = 0; a < nass; a++)
		for (init_size = 1; init_size <= 4; init_size++, cfg++)
		{
			if (!mc_mine((uint64_t)cfg))
				continue;
			if (mc_deadline())
				return;
			int x = a;
			for (int k = 0; k < nkeys; k++)
			{
				hash_of[k] = hv[x % 5];
				x /= 5;
			}
			snprintf(cfgdesc, sizeof cfgdesc, "level=a keys=%d hash=%d,%d,%d,%d size=%d", nkeys, hash_of[0], hash_of[1], hash_of[2], nkeys > 3 ? hash_of[3] : -1, init_size);
			struct bfs_stats st;
			bfs_run(&acb, BFS_MAXD, 2000000, &st);
			MC_COUNT("states", st.states);
			MC_COUNT("transitions", st.transitions);
			MC_COUNT("configurations", 1);
			MC_MAX("depth_to_fixpoint", st.max_depth_done);
			if (st.max_depth_done >= BFS_MAXD)
				MC_COUNT("configs_cut_at_depth_bound", 1);
		}
}

/* ====================== level B ====================== */
#define BK 8
static char *bkeys[BK];
static int nb;
static char longkey[301];
static int b_prefix; /* number of distinct prefix insertions before the explored history */
struct bst
{
	struct json_object *obj;
	int mk[BK + 48], mv[BK + 48]; /* model: key index (>=100: prefix key), value id */
	int n;
	int next_val;
	int destroyed[256];
	int dead;
};
static struct bst *cur_b;
static char prefkeys[48][8];
static void bval_deleted(struct json_object *o, void *ud)
{
	(void)o;
	int id = (int)(intptr_t)ud;
	if (cur_b && id >= 0 && id < 256)
		cur_b->destroyed[id]++;
}
static struct json_object *b_newval(struct bst *s, int *id)
{
	*id = s->next_val++;
	if (*id >= 256)
		abort();
	struct json_object *v = json_object_new_int(*id);
	json_object_set_userdata(v, (void *)(intptr_t)*id, bval_deleted);
	return v;
}
static const char *b_keystr(int ki)
{
	return ki >= 100 ? prefkeys[ki - 100] : bkeys[ki];
}
enum
{
	B_ADD,
	B_ADD_NEW,
	B_ADD_CONST,
	B_DEL,
	B_ADD_NULL
};
static void b_opname(int op, sb_t *o)
{
	static const char *n[] = {"object_add", "add_ex(KEY_IS_NEW)", "add_ex(CONSTANT_KEY)", "object_del", "object_add(NULL value)"};
	int k = op & 255;
	sb_printf(o, "%s(key#%d%s)", n[op >> 8], k, k == 3 ? ":300-byte" : "");
}
static void b_fail(struct bst *s, const char *sig, const char *fmt, ...)
{
	char msg[600];
	va_list ap;
	va_start(ap, fmt);
	vsnprintf(msg, sizeof msg, fmt, ap);
	va_end(ap);
	mc_violation(sig, "[%s] %s", cfgdesc, msg);
	s->dead = 1;
}
static int b_find(struct bst *s, int ki)
{
	for (int i = 0; i < s->n; i++)
		if (s->mk[i] == ki)
			return i;
	return -1;
}
static void *b_fresh(void)
{
	struct bst *s = calloc(1, sizeof *s);
	cur_b = s;
	s->obj = json_object_new_object();
	for (int i = 0; i < b_prefix; i++)
	{
		int id;
		struct json_object *v = b_newval(s, &id);
		json_object_object_add(s->obj, prefkeys[i], v);
		s->mk[s->n] = 100 + i;
		s->mv[s->n] = id;
		s->n++;
	}
	return s;
}
struct visit_log
{
	const char *keys[64];
	int n;
};
static int visit_cb(json_object *jso, int flags, json_object *parent, const char *key, size_t *index, void *ud)
{
	(void)jso;
	(void)index;
	struct visit_log *l = ud;
	if (parent && !(flags & JSON_C_VISIT_SECOND) && l->n < 64)
		l->keys[l->n++] = key;
	return JSON_C_VISIT_RETURN_CONTINUE;
}
static int check_order(struct bst *s, const char *what, const char *form, const char **got, int ngot)
{
	if (ngot != s->n)
	{
		b_fail(s, "iteration-count-differs", "%s: %s yields %d keys, model %d", what, form, ngot, s->n);
		return 0;
	}
	for (int i = 0; i < s->n; i++)
		if (strcmp(got[i], b_keystr(s->mk[i])))
		{
			b_fail(s, "iteration-order-differs", "%s: %s position %d is \"%.20s\", model \"%.20s\"", what, form, i, got[i], b_keystr(s->mk[i]));
			return 0;
		}
	return 1;
}
static void b_compare(struct bst *s, const char *what)
{
	const char *got[64];
	int n;
	if (json_object_object_length(s->obj) != s->n)
	{
		b_fail(s, "length-differs-from-model", "%s: length %d, model %d", what, json_object_object_length(s->obj), s->n);
		return;
	}
	/* lookups over the whole universe */
	for (int ki = 0; ki < nb + b_prefix; ki++)
	{
		int kk = ki < nb ? ki : 100 + (ki - nb);
		struct json_object *v = (void *)0x77;
		int found = json_object_object_get_ex(s->obj, b_keystr(kk), &v);
		int mi = b_find(s, kk);
		if (!!found != (mi >= 0))
		{
			b_fail(s, found ? "lookup-finds-deleted-key" : "lookup-misses-live-key", "%s: get_ex(key#%d) %s, model %s", what, kk, found ? "found" : "not found",
			       mi >= 0 ? "has it" : "does not");
			return;
		}
		if (found)
		{
			int want = s->mv[mi];
			if ((want < 0 && v != NULL) || (want >= 0 && (!v || json_object_get_int(v) != want)))
			{
				b_fail(s, "lookup-wrong-value", "%s: get_ex(key#%d) gives %s, model value %d", what, kk, v ? json_object_to_json_string(v) : "null", want);
				return;
			}
		}
		else if (v != NULL)
		{
			b_fail(s, "lookup-miss-leaves-value", "%s: failed get_ex did not clear the result", what);
			return;
		}
		/* the other lookup entry points answer the same: plain get, and get_ex used as a membership test */
		if (json_object_object_get(s->obj, b_keystr(kk)) != v)
		{
			b_fail(s, "lookup-entry-points-differ", "%s: json_object_object_get(key#%d) and get_ex return different nodes", what, kk);
			return;
		}
		if (!!json_object_object_get_ex(s->obj, b_keystr(kk), NULL) != !!found)
		{
			b_fail(s, "lookup-entry-points-differ", "%s: get_ex(key#%d, NULL) says %s, get_ex with a result pointer says %s", what, kk, found ? "absent" : "present", found ? "present" : "absent");
			return;
		}
	}
	/* five iteration forms */
	n = 0;
	{
		json_object_object_foreach(s->obj, k1, v1)
		{
			if (n < 64)
				got[n++] = k1;
		}
	}
	if (!check_order(s, what, "json_object_object_foreach", got, n))
		return;
	n = 0;
	{
		struct json_object_iter it;
		json_object_object_foreachC(s->obj, it)
		{
			if (n < 64)
				got[n++] = it.key;
		}
	}
	if (!check_order(s, what, "json_object_object_foreachC", got, n))
		return;
	n = 0;
	{
		struct json_object_iterator it = json_object_iter_begin(s->obj), end = json_object_iter_end(s->obj);
		while (!json_object_iter_equal(&it, &end) && n < 64)
		{
			got[n++] = json_object_iter_peek_name(&it);
			json_object_iter_next(&it);
		}
	}
	if (!check_order(s, what, "iterator API", got, n))
		return;
	{
		struct visit_log l = {.n = 0};
		json_c_visit(s->obj, 0, visit_cb, &l);
		if (!check_order(s, what, "json_c_visit", l.keys, l.n))
			return;
	}
	{
		/* serialization order: expected text built from the model */
		sb_t e = {0};
		sb_putc(&e, '{');
		for (int i = 0; i < s->n; i++)
		{
			if (i)
				sb_putc(&e, ',');
			sb_printf(&e, "\"%s\":", b_keystr(s->mk[i]));
			if (s->mv[i] < 0)
				sb_puts(&e, "null");
			else
				sb_printf(&e, "%d", s->mv[i]);
		}
		sb_putc(&e, '}');
		const char *t = json_object_to_json_string_ext(s->obj, JSON_C_TO_STRING_PLAIN);
		if (!t || strcmp(t, sb_str(&e)))
			b_fail(s, "serialization-order-differs", "%s: serialized %.120s, model %.120s", what, t ? t : "(null)", sb_str(&e));
		sb_free(&e);
	}
}
/* iteration with deletion of the current key at position p (at every position when p<0), run
 * destructively on a clone of the state obtained by replaying the current history */
static void *b_fresh(void);
static void b_apply(void *vs, int op, int check);
static char dw_seen[64][304];
static int dw_ns, dw_pos, dw_p;
static int dw_visit_cb(json_object *jso, int flags, json_object *parent, const char *key, size_t *index, void *ud)
{
	(void)jso;
	(void)index;
	(void)ud;
	if (!parent || (flags & JSON_C_VISIT_SECOND))
		return JSON_C_VISIT_RETURN_CONTINUE;
	if (dw_ns < 64)
		snprintf(dw_seen[dw_ns++], sizeof dw_seen[0], "%s", key);
	int del = dw_p < 0 || dw_pos == dw_p;
	dw_pos++;
	if (del)
	{
		/* prune the member being visited; SKIP tells the visitor not to look at the (now released) node again */
		json_object_object_del(parent, key);
		return JSON_C_VISIT_RETURN_SKIP;
	}
	return JSON_C_VISIT_RETURN_CONTINUE;
}
static void b_delete_while_iterating(struct bst *s, int p, int form)
{
	struct bst *c = b_fresh();
	for (int i = 0; i < bfs_cur_n; i++)
		b_apply(c, bfs_cur_hist[i], 0);
	cur_b = c;
	char(*seen)[304] = dw_seen;
	int ns = 0, pos = 0;
	if (form == 0)
	{
		json_object_object_foreach(c->obj, k1, v1)
		{
			if (ns < 64)
				snprintf(seen[ns++], sizeof seen[0], "%s", k1);
			if (p < 0 || pos == p)
				json_object_object_del(c->obj, k1);
			pos++;
		}
	}
	else
	{
		dw_ns = dw_pos = 0;
		dw_p = p;
		int rc = json_c_visit(c->obj, 0, dw_visit_cb, NULL);
		ns = dw_ns;
		if (rc != 0)
			b_fail(s, "delete-while-iterating", "visitor pruning position %d returned %d", p, rc);
	}
	if (ns != s->n)
		b_fail(s, "delete-while-iterating", "%s deleting the current key at position %d: iteration delivered %d keys, expected %d", form ? "visitor" : "foreach", p, ns, s->n);
	else
		for (int i = 0; i < s->n; i++)
			if (strcmp(seen[i], b_keystr(s->mk[i])))
			{
				b_fail(s, "delete-while-iterating", "deleting the current key at position %d: key %d delivered is \"%.20s\", expected \"%.20s\"", p, i, seen[i],
				       b_keystr(s->mk[i]));
				break;
			}
	int want_left = p < 0 ? 0 : s->n - 1;
	if (!s->dead && json_object_object_length(c->obj) != want_left)
		b_fail(s, "delete-while-iterating", "after deleting at position %d the object has %d members, expected %d", p, json_object_object_length(c->obj), want_left);
	json_object_put(c->obj);
	free(c);
	cur_b = s;
}
static void b_apply(void *vs, int op, int check)
{
	struct bst *s = vs;
	cur_b = s;
	if (s->dead)
		return;
	int kind = op >> 8, ki = op & 255;
	char what[64];
	sb_t w;
	sb_init_fixed(&w, what, sizeof what);
	b_opname(op, &w);
	int expd[256];
	memcpy(expd, s->destroyed, sizeof expd);
	MC_COUNT("calls", 1);
	int mi = b_find(s, ki);
	switch (kind)
	{
	case B_ADD:
	case B_ADD_NEW:
	case B_ADD_CONST:
	case B_ADD_NULL:
	{
		int id = -1;
		struct json_object *v = kind == B_ADD_NULL ? NULL : b_newval(s, &id);
		unsigned opts = kind == B_ADD_NEW ? JSON_C_OBJECT_ADD_KEY_IS_NEW : kind == B_ADD_CONST ? JSON_C_OBJECT_ADD_CONSTANT_KEY : 0;
		int rc = opts ? json_object_object_add_ex(s->obj, bkeys[ki], v, opts) : json_object_object_add(s->obj, bkeys[ki], v);
		if (rc != 0)
		{
			b_fail(s, "add-failed", "%s returned %d", what, rc);
			return;
		}
		if (mi >= 0)
		{
			if (s->mv[mi] >= 0)
				expd[s->mv[mi]]++;
			s->mv[mi] = id;
		}
		else
		{
			s->mk[s->n] = ki;
			s->mv[s->n] = id;
			s->n++;
		}
		break;
	}
	case B_DEL:
		json_object_object_del(s->obj, bkeys[ki]);
		if (mi >= 0)
		{
			if (s->mv[mi] >= 0)
				expd[s->mv[mi]]++;
			for (int i = mi; i + 1 < s->n; i++)
			{
				s->mk[i] = s->mk[i + 1];
				s->mv[i] = s->mv[i + 1];
			}
			s->n--;
		}
		break;
	}
	if (!check)
		return;
	for (int id = 0; id < s->next_val; id++)
		if (s->destroyed[id] != expd[id])
		{
			b_fail(s, s->destroyed[id] > expd[id] ? "value-released-unexpectedly" : "replaced-or-deleted-value-not-released",
			       "%s: value #%d destroyed %d time(s), model %d", what, id, s->destroyed[id], expd[id]);
			return;
		}
	b_compare(s, what);
	if (!s->dead)
	{
		for (int form = 0; form < 2; form++)
		{
			for (int p = 0; p < s->n && !s->dead; p++)
				if (form == 0 || p == 0 || p == s->n / 2 || p == s->n - 2) /* visitor: first, middle, last but one */
					b_delete_while_iterating(s, p, form);
			if (!s->dead)
				b_delete_while_iterating(s, -1, form);
		}
	}
}
static int b_menu(void *vs, int *ops, int cap)
{
	struct bst *s = vs;
	int n = 0;
	(void)cap;
	if (s->dead || s->next_val > 230)
		return 0;
	for (int ki = 0; ki < nb; ki++)
	{
		ops[n++] = (B_ADD << 8) | ki;
		if (b_find(s, ki) < 0)
			ops[n++] = (B_ADD_NEW << 8) | ki;
		ops[n++] = (B_ADD_CONST << 8) | ki;
		ops[n++] = (B_DEL << 8) | ki;
	}
	ops[n++] = (B_ADD_NULL << 8) | 1;
	return n;
}
static uint64_t b_key(void *vs)
{
	struct bst *s = vs;
	struct lh_table *t = json_object_get_object(s->obj);
	sb_t kb = {0};
	sb_printf(&kb, "%d|%d|", s->dead, t->size);
	for (int i = 0; i < t->size; i++)
	{
		const void *k = t->table[i].k;
		if (k == LH_EMPTY)
			sb_putc(&kb, '.');
		else if (k == LH_FREED)
			sb_putc(&kb, 'x');
		else
		{
			/* key identity + constant flag + null/non-null value */
			int ki = -1;
			for (int j = 0; j < nb; j++)
				if (!strcmp(bkeys[j], (const char *)k))
					ki = j;
			if (ki < 0)
				for (int j = 0; j < b_prefix; j++)
					if (!strcmp(prefkeys[j], (const char *)k))
						ki = 100 + j;
			sb_printf(&kb, "<%d%c%c>", ki, t->table[i].k_is_constant ? 'c' : 'd', t->table[i].v ? 'v' : 'n');
		}
	}
	sb_putc(&kb, '|');
	for (int i = 0; i < s->n; i++)
		sb_printf(&kb, "%d,", s->mk[i]);
	uint64_t h = mc_hash(kb.p, kb.n, 23);
	sb_free(&kb);
	return h;
}
static void b_destroy(void *vs, int check)
{
	struct bst *s = vs;
	cur_b = s;
	int rc = json_object_put(s->obj);
	if (check && !s->dead)
	{
		if (rc != 1)
			mc_violation("object-not-freed", "[%s] json_object_put(object) returned %d", cfgdesc, rc);
		for (int id = 0; id < s->next_val; id++)
			if (s->destroyed[id] != 1)
			{
				mc_violation("value-lifetime", "[%s] at the end value #%d was destroyed %d time(s)", cfgdesc, id, s->destroyed[id]);
				break;
			}
	}
	cur_b = NULL;
	free(s);
	if (vf_live())
	{
		if (check)
			mc_violation("leak", "[%s] %ld blocks live after releasing the object", cfgdesc, vf_live());
		mc_restart_worker();
	}
}
static const struct bfs_cb bcb = {b_fresh, b_apply, b_menu, b_key, b_destroy, b_opname};

static void level_b(void)
{
	/* the hash seed is a process-wide static: one process per (hash function, seed); the
	 * shard number selects the configuration, the remaining shards split its histories */
	static const long seeds[4] = {0, 1, 2147483647, -2};
	int cfg = mc_shard % 8;
	int hashfn = cfg & 1;
	long seed = seeds[cfg >> 1];
	if (mc_nshards >= 8)
	{
		mc_shard = mc_shard / 8;
		mc_nshards = mc_nshards / 8;
	}
	else
	{
		hashfn = (int)mc_opt_int("hashfn", 0);
		seed = mc_opt_int("seed", 0);
	}
	vf_seed_values[0] = (uint32_t)seed;
	vf_seed_n = 1;
	json_global_set_string_hash(hashfn ? JSON_C_STR_HASH_PERLLIKE : JSON_C_STR_HASH_DFLT);
	memset(longkey, 'L', 300);
	longkey[300] = 0;
	bkeys[0] = "";
	bkeys[1] = "a";
	bkeys[2] = "b";
	bkeys[3] = longkey;
	nb = 4;
	/* search for keys that collide modulo 16 (and one modulo 32) under this hash and seed */
	struct lh_table *probe = lh_kchar_table_new(16, NULL);
	unsigned long ha = lh_get_hash(probe, "a");
	static char c1[8], c2[8];
	int got16 = 0, got32 = 0;
	for (int i = 0; i < 100000 && !(got16 && got32); i++)
	{
		char cand[8];
		snprintf(cand, sizeof cand, "c%d", i);
		unsigned long h = lh_get_hash(probe, cand);
		if (!got32 && h % 32 == ha % 32)
		{
			strcpy(c2, cand);
			got32 = 1;
		}
		else if (!got16 && h % 16 == ha % 16)
		{
			strcpy(c1, cand);
			got16 = 1;
		}
	}
	lh_table_free(probe);
	if (got16)
		bkeys[nb++] = c1;
	if (got32)
		bkeys[nb++] = c2;
	for (int i = 0; i < 48; i++)
		snprintf(prefkeys[i], sizeof prefkeys[i], "p%d", i);
	bfs_shard_mode = 0;
	int depth = (int)mc_opt_int("depth", mc_tier ? 6 : 4);
	/* prefixes put the next table growth inside the depth bound: 16->32 at the 11th member,
	 * 32->64 at the 22nd, 64->128 at the 43rd */
	static const int prefixes[] = {0, 10, 21, 42};
	int nprefix_cfg = mc_tier ? 4 : 3;
	for (int pc = 0; pc < nprefix_cfg; pc++)
	{
		b_prefix = prefixes[pc];
		snprintf(cfgdesc, sizeof cfgdesc, "level=b hashfn=%d seed=%ld prefix=%d collide16=%s collide32=%s", hashfn, seed, b_prefix, got16 ? c1 : "-", got32 ? c2 : "-");
		struct bfs_stats st;
		/* the larger prefixes cost more per transition (iteration oracles are linear in the size) */
		bfs_run(&bcb, depth - (mc_tier && b_prefix > 10 ? 1 : 0), mc_tier ? 2000000 : 400000, &st);
		MC_COUNT("states", st.states);
		MC_COUNT("transitions", st.transitions);
		MC_COUNT("configurations", 1);
		MC_MAX("depth_completed", st.max_depth_done);
	}
}

/* ---------- scale: long scripted churn on one object (several table growths, many tombstones) ---------- */
#define SCK 1200
static char sck[SCK][12];
static int sc_order[SCK], sc_n, sc_val[SCK]; /* model: insertion order of live key indices; value per key (or -1) */
static int in_scale;
static char scaledesc[96];
static int sc_find(int k)
{
	for (int i = 0; i < sc_n; i++)
		if (sc_order[i] == k)
			return i;
	return -1;
}
static int sc_check(struct json_object *o, const char *what)
{
	if (json_object_object_length(o) != sc_n)
	{
		mc_violation("scale:length-differs-from-model", "%s: length %d, model %d", what, json_object_object_length(o), sc_n);
		return 0;
	}
	int i = 0;
	json_object_object_foreach(o, key, val)
	{
		if (i >= sc_n || strcmp(key, sck[sc_order[i]]) || json_object_get_int(val) != sc_val[sc_order[i]])
		{
			mc_violation("scale:iteration-differs-from-model", "%s: position %d is %s=%d, model %s=%d", what, i, key, json_object_get_int(val), i < sc_n ? sck[sc_order[i]] : "(end)",
			             i < sc_n ? sc_val[sc_order[i]] : -1);
			return 0;
		}
		i++;
	}
	if (i != sc_n)
	{
		mc_violation("scale:iteration-differs-from-model", "%s: iteration delivered %d members, model %d", what, i, sc_n);
		return 0;
	}
	for (int k = 0; k < SCK; k += 1)
	{
		struct json_object *v = NULL;
		int found = json_object_object_get_ex(o, sck[k], &v);
		int mi = sc_val[k] >= 0;
		if (!!found != mi || (found && json_object_get_int(v) != sc_val[k]))
		{
			mc_violation(found ? "scale:lookup-wrong" : "scale:lookup-misses-live-key", "%s: get_ex(%s) %s (value %d), model %s (value %d)", what, sck[k], found ? "found" : "not found",
			             found ? json_object_get_int(v) : -1, mi ? "present" : "absent", sc_val[k]);
			return 0;
		}
	}
	return 1;
}
static void level_scale(void)
{
	in_scale = 1;
	for (int i = 0; i < SCK; i++)
		snprintf(sck[i], sizeof sck[i], "key%d", i);
	for (int hashfn = 0; hashfn < 4; hashfn++)
		for (int script = 0; script < 3; script++)
		{
			/* hashfn 2 and 3: the process switches the global string hash while the object is alive
			 * (after 40 keys) - the object keeps working through its later growths */
			snprintf(scaledesc, sizeof scaledesc, "level=scale hashfn=%d script=%d", hashfn, script);
			if (!mc_case_begin())
				continue;
			json_global_set_string_hash((hashfn & 1) ? JSON_C_STR_HASH_PERLLIKE : JSON_C_STR_HASH_DFLT);
			struct json_object *o = json_object_new_object();
			sc_n = 0;
			for (int k = 0; k < SCK; k++)
				sc_val[k] = -1;
			int ok = 1, serial = 1;
			int n1 = script == 0 ? 100 : script == 1 ? 400 : 1100;
			for (int k = 0; k < n1 && ok; k++)
			{
				if (k == 40 && hashfn >= 2)
					json_global_set_string_hash((hashfn & 1) ? JSON_C_STR_HASH_DFLT : JSON_C_STR_HASH_PERLLIKE);
				json_object_object_add(o, sck[k], json_object_new_int(serial));
				sc_val[k] = serial++;
				sc_order[sc_n++] = k;
				if (k == 10 || k == 11 || k == 21 || k == 22 || k == 42 || k == 43 || k == 84 || k == 85 || k == 169 || k == 170 || k == 338 || k == 339 || k == 675 || k == 677 || k == n1 - 1)
					ok = sc_check(o, "while filling");
			}
			/* churn: delete 3 of every 4, re-add half of those (they move to the end), replace the survivors */
			for (int round = 0; round < 4 && ok; round++)
			{
				for (int k = round; k < n1; k++)
					if (k % 4 != 3 && sc_val[k] >= 0 && (k + round) % 2 == 0)
					{
						json_object_object_del(o, sck[k]);
						int at = sc_find(k);
						memmove(&sc_order[at], &sc_order[at + 1], (size_t)(sc_n - at - 1) * sizeof(int));
						sc_n--;
						sc_val[k] = -1;
					}
				ok = sc_check(o, "after a round of deletions");
				for (int k = 0; k < n1 && ok; k += 3)
				{
					int opts = (k % 2) ? JSON_C_OBJECT_ADD_CONSTANT_KEY : 0;
					if (sc_val[k] < 0)
					{
						json_object_object_add_ex(o, sck[k], json_object_new_int(serial), (unsigned)opts | JSON_C_OBJECT_ADD_KEY_IS_NEW);
						sc_order[sc_n++] = k;
					}
					else
						json_object_object_add_ex(o, sck[k], json_object_new_int(serial), (unsigned)opts);
					sc_val[k] = serial++;
				}
				ok = ok && sc_check(o, "after re-adding and replacing");
			}
			MC_COUNT("calls", 6 * n1);
			json_object_put(o);
			if (vf_live())
			{
				mc_violation("leak", "%ld blocks live after the scale script", vf_live());
				mc_restart_worker();
			}
			mc_nontrivial(mc_hash_str(scaledesc));
			mc_sample_current();
		}
	json_global_set_string_hash(JSON_C_STR_HASH_DFLT);
	in_scale = 0;
}

static int level;
static void describe(sb_t *o)
{
	if (in_scale)
	{
		sb_puts(o, scaledesc);
		return;
	}
	sb_printf(o, "%s ", cfgdesc);
	bfs_describe(level ? &bcb : &acb, o);
}
static void enumerate(void)
{
	level = !strcmp(mc_opt("level", "a"), "b");
	if (level)
		level_b();
	else
	{
		level_a();
		level_scale();
	}
}
static int replay(const char *desc)
{
	level = !strcmp(mc_opt("level", "a"), "b");
	if (strstr(desc, "level=scale"))
	{
		level_scale();
		return (int)mc_violations();
	}
	if (!level)
	{
		long k = 3, sz = 1;
		char h[64] = "";
		mc_desc_int(desc, "keys", &k);
		mc_desc_int(desc, "size", &sz);
		mc_desc_str(desc, "hash", h, sizeof h);
		nkeys = (int)k;
		init_size = (int)sz;
		sscanf(h, "%d,%d,%d,%d", &hash_of[0], &hash_of[1], &hash_of[2], &hash_of[3]);
		snprintf(cfgdesc, sizeof cfgdesc, "level=a keys=%d hash=%s size=%d", nkeys, h, init_size);
		bfs_replay(&acb, desc);
	}
	else
	{
		fprintf(stderr, "level b: re-run the configuration named in the descriptor (hashfn/seed/prefix are harness arguments)\n");
		long p = 0;
		mc_desc_int(desc, "prefix", &p);
		/* set up keys as level_b does, then replay */
		mc_tier = 0;
		b_prefix = (int)p;
		/* reuse level_b's setup by running it with depth 0 */
		static char *argv0[] = {0};
		(void)argv0;
		int hashfn = (int)mc_opt_int("hashfn", 0);
		long seed = mc_opt_int("seed", 0);
		vf_seed_values[0] = (uint32_t)seed;
		json_global_set_string_hash(hashfn ? JSON_C_STR_HASH_PERLLIKE : JSON_C_STR_HASH_DFLT);
		memset(longkey, 'L', 300);
		bkeys[0] = "";
		bkeys[1] = "a";
		bkeys[2] = "b";
		bkeys[3] = longkey;
		nb = 4;
		static char c1[8], c2[8];
		if (mc_desc_str(desc, "collide16", c1, sizeof c1) && strcmp(c1, "-"))
			bkeys[nb++] = c1;
		if (mc_desc_str(desc, "collide32", c2, sizeof c2) && strcmp(c2, "-"))
			bkeys[nb++] = c2;
		for (int i = 0; i < 48; i++)
			snprintf(prefkeys[i], sizeof prefkeys[i], "p%d", i);
		snprintf(cfgdesc, sizeof cfgdesc, "level=b replay prefix=%d", b_prefix);
		bfs_replay(&bcb, desc);
	}
	return (int)mc_violations();
}
int main(int argc, char **argv)
{
	struct mc_harness h = {"c06", enumerate, describe, replay};
	return mc_main(argc, argv, &h);
}
