/* C10 - numeric accessors and mutators: exact when representable, else saturating.
 * Boundary lattices x accessors, complete short strings over a numeric alphabet,
 * explicit-state search of one int node under set/inc.  Sanitizer build: an
 * undefined conversion or signed overflow aborts and is attributed to the case. */
#include "mc.h"
#include "json.h"
#include <errno.h>
#include <math.h>
#include <stdlib.h>
#include <string.h>
#include <ctype.h>

typedef __int128 i128;
static char cur[512];
static void describe(sb_t *o)
{
	sb_puts(o, cur);
}

#define I64MIN ((i128)INT64_MIN)
#define I64MAX ((i128)INT64_MAX)
#define U64MAX ((i128)UINT64_MAX)

static void i128_str(i128 v, char *buf)
{
	char tmp[48];
	int n = 0, neg = v < 0;
	unsigned __int128 u = neg ? (unsigned __int128)(-(v + 1)) + 1 : (unsigned __int128)v;
	if (!u)
		tmp[n++] = '0';
	while (u)
	{
		tmp[n++] = (char)('0' + (int)(u % 10));
		u /= 10;
	}
	int k = 0;
	if (neg)
		buf[k++] = '-';
	while (n)
		buf[k++] = tmp[--n];
	buf[k] = 0;
}

/* ---- expectations ---- */
#define E_ANY (-1)
struct exp_i
{
	i128 val;
	int err; /* expected errno, or E_ANY */
};
static struct exp_i clamp_to(i128 v, i128 lo, i128 hi)
{
	struct exp_i e = {v, 0};
	if (v < lo)
	{
		e.val = lo;
		e.err = ERANGE;
	}
	else if (v > hi)
	{
		e.val = hi;
		e.err = ERANGE;
	}
	return e;
}
/* double -> integer target [lo,hi] */
static struct exp_i dbl_to(double d, i128 lo, i128 hi, i128 nan_val)
{
	struct exp_i e = {0, 0};
	if (d != d)
	{
		e.val = nan_val;
		e.err = EINVAL;
		return e;
	}
	/* exact comparison of the double against integer bounds: 2^k bounds are exact doubles */
	double dlo = (double)lo;              /* exact: -2^31, -2^63, 0 */
	double dhi_excl = (double)(hi + 1);   /* exact: 2^31, 2^63, 2^64 */
	if (d >= dhi_excl)
	{
		e.val = hi;
		e.err = ERANGE;
		return e;
	}
	if ((dlo - 1.0 == dlo) ? (d < dlo) : (d <= dlo - 1.0))
	{
		e.val = lo;
		e.err = ERANGE;
		return e;
	}
	if (d < dlo)
	{
		/* in (lo-1, lo): truncation gives lo; errno unspecified */
		e.val = lo;
		e.err = E_ANY;
		return e;
	}
	double t = trunc(d);
	e.val = (i128)t;
	if (d > (double)hi)
		e.err = E_ANY; /* in (hi, hi+1): truncation fits, errno unspecified */
	return e;
}
/* string -> integer, documented rule: blanks, sign, decimal digits, saturate, longest valid prefix */
static int str_to_i128(const char *s, i128 *out, int *neg_out)
{
	while (isspace((unsigned char)*s))
		s++;
	int neg = 0;
	if (*s == '+' || *s == '-')
		neg = *s++ == '-';
	if (!isdigit((unsigned char)*s))
		return 0;
	i128 acc = 0;
	while (isdigit((unsigned char)*s))
	{
		if (acc < ((i128)1 << 100))
			acc = acc * 10 + (*s - '0');
		s++;
	}
	*out = neg ? -acc : acc;
	*neg_out = neg;
	return 1;
}

/* ---- node under test ---- */
enum nk
{
	N_NULL,
	N_BOOL,
	N_INT,
	N_DBL,
	N_STR,
	N_ARR,
	N_OBJ
};
struct nodeval
{
	enum nk k;
	int b;
	i128 iv;
	double d;
	const char *s;
	size_t slen;
};
static struct json_object *build(const struct nodeval *n, int as_uint)
{
	switch (n->k)
	{
	case N_NULL: return NULL;
	case N_BOOL: return json_object_new_boolean(n->b);
	case N_INT:
		if (n->iv > I64MAX || (as_uint && n->iv >= 0))
			return json_object_new_uint64((uint64_t)n->iv);
		return json_object_new_int64((int64_t)n->iv);
	case N_DBL: return json_object_new_double(n->d);
	case N_STR:
		if (as_uint == 0)
			return json_object_new_string_len(n->s, (int)n->slen);
		else
		{
			/* the same bytes held in separately allocated storage: the node was grown by a set
			 * (as_uint == 1), or grown further and then set back to the shorter text (== 2) */
			struct json_object *o = json_object_new_string("");
			if (as_uint == 2)
			{
				char tmp[160];
				memcpy(tmp, n->s, n->slen);
				memset(tmp + n->slen, 'x', 40);
				json_object_set_string_len(o, tmp, (int)n->slen + 40);
			}
			json_object_set_string_len(o, n->s, (int)n->slen);
			return o;
		}
	case N_ARR: return json_object_new_array();
	case N_OBJ: return json_object_new_object();
	}
	return NULL;
}

static void check_i(const char *acc, struct exp_i want, i128 got, int got_errno)
{
	char a[48], b[48];
	if (got != want.val)
	{
		i128_str(want.val, a);
		i128_str(got, b);
		mc_violation("wrong-value", "%s returned %s, expected %s", acc, b, a);
	}
	else if (want.err != E_ANY && want.err != 0 && got_errno != want.err)
		mc_violation("wrong-errno", "%s: errno %d, expected %d", acc, got_errno, want.err);
	else if (want.err == 0 && !mc_errno_pre && (got_errno == ERANGE || got_errno == EINVAL))
		mc_violation("spurious-errno", "%s: errno %d on an exact conversion", acc, got_errno);
	mc_outcome(mc_hash(&got, sizeof got, (uint64_t)got_errno + mc_hash_str(acc)));
}

static void check_accessors(const struct nodeval *n, int as_uint)
{
	if (!mc_case_begin())
		return;
	struct json_object *o = build(n, as_uint);
	struct exp_i e32 = {0, 0}, e64 = {0, 0}, eu = {0, 0};
	double ed = 0;
	int ed_err = E_ANY, eb = 0;
	switch (n->k)
	{
	case N_NULL: break;
	case N_ARR:
	case N_OBJ:
		e32.err = e64.err = eu.err = E_ANY;
		ed_err = EINVAL;
		break;
	case N_BOOL:
		e32.val = e64.val = eu.val = n->b;
		ed = n->b;
		eb = n->b;
		break;
	case N_INT:
		e32 = clamp_to(n->iv, INT32_MIN, INT32_MAX);
		e64 = clamp_to(n->iv, I64MIN, I64MAX);
		eu = clamp_to(n->iv, 0, U64MAX);
		ed = n->iv < 0 ? (double)(int64_t)n->iv : (double)(uint64_t)n->iv;
		eb = n->iv != 0;
		break;
	case N_DBL:
		e32 = dbl_to(n->d, INT32_MIN, INT32_MAX, INT32_MIN);
		e64 = dbl_to(n->d, I64MIN, I64MAX, I64MIN);
		eu = dbl_to(n->d, 0, U64MAX, 0);
		if (n->d < 0 && n->d > -1)
			eu.err = E_ANY;
		ed = n->d;
		eb = n->d != 0;
		break;
	case N_STR:
	{
		i128 v;
		int neg;
		if (memchr(n->s, 0, n->slen))
		{
			/* conversion reads a C string: rules apply to the part before the NUL */
		}
		if (str_to_i128(n->s, &v, &neg))
		{
			e64 = clamp_to(v, I64MIN, I64MAX);
			e32 = clamp_to(v, INT32_MIN, INT32_MAX);
			eu = clamp_to(v, 0, U64MAX);
			if (v < 0 || neg)
				eu.err = E_ANY; /* a negative text has no unsigned conversion; only the value 0 is required */
		}
		else
		{
			e32.err = e64.err = eu.err = EINVAL;
		}
		char *end;
		errno = 0;
		double sd = strtod(n->s, &end);
		if (end == n->s || *end)
		{
			ed = 0;
			ed_err = EINVAL;
		}
		else if ((sd == HUGE_VAL || sd == -HUGE_VAL) && errno == ERANGE)
			ed = 0;
		else
			ed = sd;
		eb = n->slen != 0;
		/* the text-to-number helpers called directly: return code, value, errno */
		{
			int conv = str_to_i128(n->s, &v, &neg);
			int64_t r64 = 0x5a5a5a5a;
			uint64_t ru = 0x5a5a5a5a;
			double rd = 0;
			MC_COUNT("calls", 3);
			mc_phase = "json_parse_int64";
			errno = 0;
			int rc = json_parse_int64(n->s, &r64);
			int en = errno;
			if (conv)
			{
				struct exp_i x = clamp_to(v, I64MIN, I64MAX);
				if (rc != 0)
					mc_violation("parse-helper-refuses-number", "json_parse_int64 returned %d for a convertible text", rc);
				else if ((i128)r64 != x.val)
					mc_violation("wrong-value", "json_parse_int64 stored %lld", (long long)r64);
				else if (x.err == ERANGE && en != ERANGE)
					mc_violation("wrong-errno", "json_parse_int64: saturated but errno is %d, documented ERANGE", en);
				else if (x.err == 0 && en != 0)
					mc_violation("wrong-errno", "json_parse_int64: exact conversion but errno is %d", en);
			}
			else if (rc == 0)
				mc_violation("parse-helper-accepts-non-number", "json_parse_int64 returned 0 for a text with no number (stored %lld)", (long long)r64);
			else if (en != EINVAL)
				mc_violation("wrong-errno", "json_parse_int64: failure with errno %d, expected EINVAL", en);
			mc_phase = "json_parse_uint64";
			errno = 0;
			rc = json_parse_uint64(n->s, &ru);
			en = errno;
			if (conv && !neg)
			{
				struct exp_i x = clamp_to(v, 0, U64MAX);
				if (rc != 0)
					mc_violation("parse-helper-refuses-number", "json_parse_uint64 returned %d for a convertible text", rc);
				else if ((i128)ru != x.val)
					mc_violation("wrong-value", "json_parse_uint64 stored %llu", (unsigned long long)ru);
				else if (x.err == ERANGE && en != ERANGE)
					mc_violation("wrong-errno", "json_parse_uint64: saturated but errno is %d, expected ERANGE", en);
			}
			else if (rc == 0)
				mc_violation("parse-helper-accepts-non-number", "json_parse_uint64 returned 0 for a %s text (stored %llu)", conv ? "negative" : "non-numeric", (unsigned long long)ru);
			else if (en != EINVAL)
				mc_violation("wrong-errno", "json_parse_uint64: failure with errno %d, expected EINVAL", en);
			mc_phase = "json_parse_double";
			rc = json_parse_double(n->s, &rd);
			{
				char *e2;
				double want = strtod(n->s, &e2);
				if ((rc == 0) != (e2 != n->s))
					mc_violation("wrong-value", "json_parse_double returned %d, strtod consumed %d bytes", rc, (int)(e2 - n->s));
				else if (rc == 0 && !((rd != rd && want != want) || (rd == want && signbit(rd) == signbit(want))))
					mc_violation("wrong-value", "json_parse_double stored %.17g, expected %.17g", rd, want);
			}
			mc_phase = "";
		}
		break;
	}
	}
	MC_COUNT("calls", 5);
	errno = mc_errno_pre;
	mc_phase = "get_int";
	int32_t g32 = json_object_get_int(o);
	check_i("get_int", e32, g32, errno);
	errno = mc_errno_pre;
	mc_phase = "get_int64";
	int64_t g64 = json_object_get_int64(o);
	check_i("get_int64", e64, g64, errno);
	errno = mc_errno_pre;
	mc_phase = "get_uint64";
	uint64_t gu = json_object_get_uint64(o);
	check_i("get_uint64", eu, (i128)gu, errno);
	mc_phase = "get_double";
	errno = mc_errno_pre;
	double gd = json_object_get_double(o);
	int gd_errno = errno;
	if (!((gd != gd && ed != ed) || (gd == ed && signbit(gd) == signbit(ed))))
		mc_violation("wrong-value", "get_double returned %.17g, expected %.17g", gd, ed);
	else if (ed_err == EINVAL && gd_errno != EINVAL)
		mc_violation("wrong-errno", "get_double: errno %d, expected EINVAL", gd_errno);
	else if ((n->k == N_DBL || n->k == N_INT || n->k == N_BOOL) && !mc_errno_pre && gd_errno != 0)
		mc_violation("spurious-errno", "get_double: errno %d on an exact conversion", gd_errno);
	int gb = json_object_get_boolean(o);
	if (!!gb != !!eb)
		mc_violation("wrong-value", "get_boolean returned %d, expected %d", gb, eb);
	mc_phase = "";
	json_object_put(o);
	if (vf_live())
	{
		mc_violation("leak", "%ld blocks live", vf_live());
		mc_restart_worker();
	}
	mc_nontrivial(mc_hash_str(cur));
	mc_sample_current();
}

static void fam_values(void)
{
	struct nodeval n;
	memset(&n, 0, sizeof n);
	/* integers */
	n.k = N_INT;
	static const int shifts[] = {0, 1, 31, 32, 53, 63, 64};
	for (unsigned s = 0; s < 7; s++)
		for (int sg = -1; sg <= 1; sg += 2)
			for (int delta = -2; delta <= 2; delta++)
			{
				i128 v = (i128)sg * (((i128)1) << shifts[s]) + delta;
				if (v < I64MIN || v > U64MAX)
					continue;
				n.iv = v;
				char b[48];
				i128_str(v, b);
				snprintf(cur, sizeof cur, "node=int value=%s repr=int64-or-uint64", b);
				check_accessors(&n, 0);
				if (v >= 0 && v <= I64MAX)
				{
					snprintf(cur, sizeof cur, "node=int value=%s repr=uint64", b);
					check_accessors(&n, 1);
				}
			}
	/* doubles */
	n.k = N_DBL;
	static const double bounds[] = {0.0, 2147483648.0, 4294967296.0, 9007199254740992.0, 9223372036854775808.0, 18446744073709551616.0};
	for (unsigned b = 0; b < 6; b++)
		for (int sg = -1; sg <= 1; sg += 2)
		{
			static const double off[] = {-1.5, -1, -0.5, 0, 0.5, 1, 1.5};
			double base = bounds[b] * sg;
			double cand[16];
			int nc = 0;
			for (int k = 0; k < 7; k++)
				cand[nc++] = base + off[k];
			cand[nc++] = nextafter(base, INFINITY);
			cand[nc++] = nextafter(base, -INFINITY);
			cand[nc++] = nextafter(nextafter(base, INFINITY), INFINITY);
			cand[nc++] = nextafter(nextafter(base, -INFINITY), -INFINITY);
			for (int k = 0; k < nc; k++)
			{
				n.d = cand[k];
				snprintf(cur, sizeof cur, "node=double value=%.17g hex=%a", n.d, n.d);
				check_accessors(&n, 0);
			}
		}
	static const double specials[] = {2.2250738585072014e-308, -2.2250738585072014e-308, 4.9406564584124654e-324, -4.9406564584124654e-324,
	                                  1.7976931348623157e308, -1.7976931348623157e308, INFINITY, -INFINITY, NAN, -0.0, 0.9999999999999999, -0.9999999999999999,
	                                  1e19, -1e19, 1e20, 1.8446744073709552e19, 9.2233720368547758e18, -9.2233720368547758e18, 2147483647.9999995, -2147483648.9999995};
	for (unsigned k = 0; k < sizeof specials / sizeof specials[0]; k++)
	{
		n.d = specials[k];
		snprintf(cur, sizeof cur, "node=double value=%.17g hex=%a", n.d, n.d);
		check_accessors(&n, 0);
	}
	/* other kinds */
	n.k = N_NULL;
	snprintf(cur, sizeof cur, "node=null");
	check_accessors(&n, 0);
	n.k = N_ARR;
	snprintf(cur, sizeof cur, "node=array");
	check_accessors(&n, 0);
	n.k = N_OBJ;
	snprintf(cur, sizeof cur, "node=object");
	check_accessors(&n, 0);
	n.k = N_BOOL;
	for (n.b = 0; n.b < 2; n.b++)
	{
		snprintf(cur, sizeof cur, "node=bool value=%d", n.b);
		check_accessors(&n, 0);
	}
}

static void one_string(const char *s, size_t len)
{
	struct nodeval n;
	memset(&n, 0, sizeof n);
	n.k = N_STR;
	n.s = s;
	n.slen = len;
	sb_t d;
	sb_init_fixed(&d, cur, sizeof cur);
	sb_puts(&d, "node=string hex=");
	sb_hex(&d, s, len);
	sb_printf(&d, " ascii=%.60s", s);
	check_accessors(&n, 0);
	if (len > 0 && len < 100)
		for (int st = 1; st <= 2; st++)
		{
			sb_init_fixed(&d, cur, sizeof cur);
			sb_printf(&d, "node=string storage=%s hex=", st == 1 ? "grown-by-set" : "grown-then-shortened");
			sb_hex(&d, s, len);
			sb_printf(&d, " ascii=%.60s", s);
			check_accessors(&n, st);
		}
}
static void fam_strings(void)
{
	static const char alpha[] = " \t-+019.ex";
	int na = (int)strlen(alpha), maxlen = mc_tier ? 6 : 4;
	char s[16];
	one_string("", 0);
	for (int len = 1; len <= maxlen; len++)
	{
		int idx[8] = {0};
		for (;;)
		{
			for (int k = 0; k < len; k++)
				s[k] = alpha[idx[k]];
			s[len] = 0;
			one_string(s, (size_t)len);
			int k = 0;
			while (k < len && ++idx[k] == na)
				idx[k++] = 0;
			if (k == len)
				break;
		}
	}
	/* decimal spellings of the lattice and of long numbers */
	static const char *bases[] = {"2147483647", "2147483648", "2147483649", "4294967295", "4294967296", "9223372036854775806", "9223372036854775807",
	                              "9223372036854775808", "9223372036854775809", "18446744073709551614", "18446744073709551615", "18446744073709551616",
	                              "18446744073709551617", "99999999999999999999", "123456789012345678901234567890", "1234567890123456789012345678901234567890",
	                              "0", "00", "007", "1.5", "1e3", "1e400", "-1e400", "1e-400", "12abc", "abc", "0x10", "inf", "nan", "Infinity", "1,5", ".5", "5.", "+.5e1"};
	for (unsigned i = 0; i < sizeof bases / sizeof bases[0]; i++)
	{
		static const char *pre[] = {"", "-", "+", " ", "  -", "\t", "\n-", " +", "\v", "\f-", "\r-", "\v-", " \f -", "\f+", "\r"};
		for (unsigned p = 0; p < sizeof pre / sizeof pre[0]; p++)
		{
			char t[96];
			snprintf(t, sizeof t, "%s%s", pre[p], bases[i]);
			one_string(t, strlen(t));
			snprintf(t, sizeof t, "%s%s ", pre[p], bases[i]);
			one_string(t, strlen(t));
		}
	}
	one_string("12\0" "34", 5);
}

/* ---- mutation: explicit-state search of one int node ---- */
static i128 lattice[96];
static int nlat;
static void build_lattice(void)
{
	static const int shifts[] = {0, 31, 32, 53, 63, 64};
	nlat = 0;
	lattice[nlat++] = 0;
	for (unsigned s = 0; s < 6; s++)
		for (int sg = -1; sg <= 1; sg += 2)
			for (int delta = -1; delta <= 1; delta++)
			{
				i128 v = (i128)sg * (((i128)1) << shifts[s]) + delta;
				if (v < I64MIN || v > U64MAX)
					continue;
				int dup = 0;
				for (int k = 0; k < nlat; k++)
					dup |= lattice[k] == v;
				if (!dup)
					lattice[nlat++] = v;
			}
	lattice[nlat++] = I64MIN + 2;
	lattice[nlat++] = I64MAX - 2;
	lattice[nlat++] = U64MAX - 2;
}
struct mstate
{
	i128 v;
	int is_u; /* representation class as far as the API shows it: value > INT64_MAX */
};
struct mop
{
	int kind; /* 0 set_int64 1 set_uint64 2 int_inc 3 set_int */
	i128 arg;
};
static void apply_model(i128 *v, struct mop op)
{
	if (op.kind == 0 || op.kind == 1 || op.kind == 3)
		*v = op.arg;
	else
	{
		i128 r = *v + op.arg;
		if (r < I64MIN)
			r = I64MIN;
		if (r > U64MAX)
			r = U64MAX;
		*v = r;
	}
}
static int apply_real(struct json_object *o, struct mop op)
{
	switch (op.kind)
	{
	case 0: return json_object_set_int64(o, (int64_t)op.arg);
	case 1: return json_object_set_uint64(o, (uint64_t)op.arg);
	case 2: return json_object_int_inc(o, (int64_t)op.arg);
	default: return json_object_set_int(o, (int)op.arg);
	}
}
static void check_int_node(struct json_object *o, i128 want, const char *when)
{
	char a[48], b[64];
	i128_str(want, a);
	const char *txt = json_object_to_json_string_ext(o, JSON_C_TO_STRING_PLAIN);
	if (!txt || strcmp(txt, a))
		mc_violation("mutation-wrong-value", "%s: node serializes as %s, exact result is %s", when, txt ? txt : "(null)", a);
	errno = mc_errno_pre;
	int64_t g64 = json_object_get_int64(o);
	struct exp_i e64 = clamp_to(want, I64MIN, I64MAX);
	if (g64 != (int64_t)e64.val)
	{
		i128_str(g64, b);
		mc_violation("mutation-wrong-value", "%s: get_int64 = %s for exact value %s", when, b, a);
	}
	errno = mc_errno_pre;
	uint64_t gu = json_object_get_uint64(o);
	struct exp_i eu = clamp_to(want, 0, U64MAX);
	if ((i128)gu != eu.val)
	{
		i128_str((i128)gu, b);
		mc_violation("mutation-wrong-value", "%s: get_uint64 = %s for exact value %s", when, b, a);
	}
}
#define MAXHIST 6
static void run_history(const struct mop *ops, int n, i128 start, int start_uint)
{
	/* executes ops on a fresh node, checking after every step */
	char when[300];
	struct json_object *o = start > I64MAX || start_uint ? json_object_new_uint64((uint64_t)start) : json_object_new_int64((int64_t)start);
	i128 v = start;
	for (int i = 0; i < n; i++)
	{
		static const char *opn[] = {"set_int64", "set_uint64", "int_inc", "set_int"};
		mc_phase = opn[ops[i].kind];
		int rc = apply_real(o, ops[i]);
		mc_phase = "";
		apply_model(&v, ops[i]);
		MC_COUNT("calls", 1);
		if (rc != 1)
			mc_violation("mutation-return", "operation %d of the history returned %d", i, rc);
		snprintf(when, sizeof when, "after step %d", i + 1);
		check_int_node(o, v, when);
	}
	json_object_put(o);
}
static void fam_mutation(void)
{
	build_lattice();
	/* operation menu */
	static struct mop menu[400];
	int nm = 0;
	for (int k = 0; k < nlat; k++)
	{
		if (lattice[k] >= I64MIN && lattice[k] <= I64MAX)
		{
			menu[nm++] = (struct mop){0, lattice[k]};
			menu[nm++] = (struct mop){2, lattice[k]};
		}
		if (lattice[k] >= 0)
			menu[nm++] = (struct mop){1, lattice[k]};
		if (lattice[k] >= INT32_MIN && lattice[k] <= INT32_MAX)
			menu[nm++] = (struct mop){3, lattice[k]};
	}
	/* depth 1: all (value, op) pairs from both representations */
	for (int s = 0; s < nlat; s++)
		for (int rep = 0; rep < 2; rep++)
		{
			if (rep == 1 && (lattice[s] < 0 || lattice[s] > I64MAX))
				continue;
			for (int m = 0; m < nm; m++)
			{
				char a[48], b[48];
				i128_str(lattice[s], a);
				i128_str(menu[m].arg, b);
				snprintf(cur, sizeof cur, "node=int start=%s repr=%s ops=%d:%s", a, rep ? "uint64" : "natural", menu[m].kind, b);
				if (!mc_case_begin())
					continue;
				run_history(&menu[m], 1, lattice[s], rep);
				mc_nontrivial(mc_hash_str(cur));
				mc_sample_current();
			}
		}
	/* deeper: BFS over reachable exact values, merged on (value, representation-as-seen-by-the-API);
	 * int_inc ops only with a reduced increment set, histories replayed on fresh nodes */
	int depth = mc_tier ? 5 : 3;
	static const int inc_sel[] = {0, 1, 2};
	(void)inc_sel;
	static struct mop incs[64];
	int ni = 0;
	for (int m = 0; m < nm; m++)
		if (menu[m].kind == 2)
		{
			i128 a = menu[m].arg;
			if (a == 1 || a == -1 || a == I64MIN || a == I64MAX || a == I64MIN + 1 || a == ((i128)1 << 63) - 2 || a == ((i128)1 << 32) || a == -((i128)1 << 32))
				incs[ni++] = menu[m];
		}
	/* frontier of histories */
	struct hist
	{
		struct mop ops[MAXHIST];
		int n;
		i128 v;
	};
	static struct hist *fr, *nx;
	static i128 seen[1 << 16];
	int nseen = 0;
	size_t cap = 1 << 20;
	if (!fr)
	{
		fr = malloc(cap * sizeof *fr);
		nx = malloc(cap * sizeof *nx);
	}
	size_t nf = 0;
	static const i128 starts[] = {0, I64MAX, I64MIN, (i128)1 << 63, U64MAX};
	for (unsigned s = 0; s < 5; s++)
	{
		/* start state reached by one set operation from a zero node */
		fr[nf].n = 1;
		fr[nf].ops[0] = (struct mop){starts[s] > I64MAX ? 1 : 0, starts[s]};
		fr[nf].v = starts[s];
		nf++;
		seen[nseen++] = starts[s];
	}
	for (int d = 1; d < depth; d++)
	{
		size_t nn = 0;
		for (size_t f = 0; f < nf; f++)
			for (int m = 0; m < ni; m++)
			{
				struct hist h = fr[f];
				h.ops[h.n++] = incs[m];
				i128 v = h.v;
				apply_model(&v, incs[m]);
				h.v = v;
				char a[48];
				i128_str(v, a);
				sb_t sd;
				sb_init_fixed(&sd, cur, sizeof cur);
				sb_puts(&sd, "node=int start=0 repr=natural ops=");
				for (int i = 0; i < h.n; i++)
				{
					char b[48];
					i128_str(h.ops[i].arg, b);
					sb_printf(&sd, "%d:%s,", h.ops[i].kind, b);
				}
				MC_COUNT("transitions", 1);
				if (mc_case_begin())
				{
					run_history(h.ops, h.n, 0, 0);
					mc_nontrivial(mc_hash_str(cur));
					mc_sample_current();
				}
				int dup = 0;
				for (int k = 0; k < nseen; k++)
					dup |= seen[k] == v;
				if (!dup && nseen < (1 << 16) && nn < cap && h.n < MAXHIST)
				{
					seen[nseen++] = v;
					nx[nn++] = h;
				}
			}
		struct hist *t = fr;
		fr = nx;
		nx = t;
		nf = nn;
		MC_COUNT("states", (long)nn);
	}
	/* doubles, booleans: set then get */
	static const double dv[] = {0.0, -0.0, 1.5, -2.5e300, 4.9406564584124654e-324, INFINITY, NAN};
	for (unsigned i = 0; i < 7; i++)
		for (unsigned j = 0; j < 7; j++)
		{
			snprintf(cur, sizeof cur, "node=double start=%.17g set_double=%.17g", dv[i], dv[j]);
			if (!mc_case_begin())
				continue;
			struct json_object *o = i & 1 ? json_object_new_double_s(dv[i], "1.0") : json_object_new_double(dv[i]);
			int rc = json_object_set_double(o, dv[j]);
			double g = json_object_get_double(o);
			if (rc != 1 || !((g != g && dv[j] != dv[j]) || (g == dv[j] && signbit(g) == signbit(dv[j]))))
				mc_violation("mutation-wrong-value", "set_double then get_double: rc %d value %.17g", rc, g);
			const char *t = json_object_to_json_string(o);
			if (dv[j] == dv[j] && !isinf(dv[j]) && strtod(t, NULL) != dv[j])
				mc_violation("mutation-wrong-value", "after set_double the node serializes as %s", t);
			json_object_put(o);
		}
	for (int i = 0; i < 2; i++)
		for (int j = -1; j < 3; j++)
		{
			snprintf(cur, sizeof cur, "node=bool start=%d set_boolean=%d", i, j);
			if (!mc_case_begin())
				continue;
			struct json_object *o = json_object_new_boolean(i);
			int rc = json_object_set_boolean(o, j);
			if (rc != 1 || !!json_object_get_boolean(o) != !!j)
				mc_violation("mutation-wrong-value", "set_boolean(%d) then get_boolean = %d", j, json_object_get_boolean(o));
			json_object_put(o);
		}
	/* setters on the wrong kind must refuse and change nothing */
	{
		snprintf(cur, sizeof cur, "node=string setters-of-other-kinds");
		if (mc_case_begin())
		{
			struct json_object *o = json_object_new_string("7");
			if (json_object_set_int64(o, 5) || json_object_set_uint64(o, 5) || json_object_int_inc(o, 1) || json_object_set_double(o, 1.0) ||
			    json_object_set_boolean(o, 1) || json_object_set_int(o, 3))
				mc_violation("mutation-return", "a setter for another kind reported success on a string node");
			if (strcmp(json_object_get_string(o), "7"))
				mc_violation("mutation-wrong-value", "string node changed by a refused setter");
			json_object_put(o);
		}
	}
}

static void enumerate(void)
{
	fam_values();
	fam_strings();
	fam_mutation();
}

static int replay(const char *desc)
{
	/* the families are small: re-run them all and report whether the same description fails again */
	(void)desc;
	enumerate();
	return (int)mc_violations();
}

int main(int argc, char **argv)
{
	struct mc_harness h = {"c10", enumerate, describe, replay};
	return mc_main(argc, argv, &h);
}
