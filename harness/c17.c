/* C17 - json_c_visit performs the documented traversal for any tree and callback.
 * Every tree shape up to a node bound; the callback is a choice point: every
 * assignment of return codes to calls (deviation bounded) is explored by
 * stateless DFS over choice vectors; oracle = reference traversal. */
#include "mc.h"
#include "json.h"
#include "json_visit.h"
#include <errno.h>
#include <stdlib.h>
#include <string.h>

enum tk
{
	T_LEAF,
	T_NULL,
	T_ARR,
	T_OBJ
};
#define MAXN 9
struct tn
{
	enum tk k;
	int nch;
	int ch[MAXN];
	int parent, slot;
	struct json_object *jso;
};
static struct tn N[MAXN + 1];
static int NN;

static const int CODES[6] = {JSON_C_VISIT_RETURN_CONTINUE, JSON_C_VISIT_RETURN_SKIP, JSON_C_VISIT_RETURN_POP, JSON_C_VISIT_RETURN_STOP,
                             JSON_C_VISIT_RETURN_ERROR, 42};
static const char *CODEN[6] = {"CONTINUE", "SKIP", "POP", "STOP", "ERROR", "42"};

#define MAXCALLS 32
static int choice[MAXCALLS], nprefix;
struct logent
{
	int node, second;
};
static struct logent rlog[MAXCALLS], glog[MAXCALLS];
static int nr, ng, gbad;
static char gbadmsg[200];

static void tree_text(int n, sb_t *o)
{
	switch (N[n].k)
	{
	case T_LEAF: sb_printf(o, "%d", n); break;
	case T_NULL: sb_puts(o, "null"); break;
	case T_ARR:
		sb_putc(o, '[');
		for (int i = 0; i < N[n].nch; i++)
		{
			if (i)
				sb_putc(o, ',');
			tree_text(N[n].ch[i], o);
		}
		sb_putc(o, ']');
		break;
	case T_OBJ:
		sb_putc(o, '{');
		for (int i = 0; i < N[n].nch; i++)
		{
			if (i)
				sb_putc(o, ',');
			sb_printf(o, "\"k%d\":", i);
			tree_text(N[n].ch[i], o);
		}
		sb_putc(o, '}');
		break;
	}
}
static char deepdesc[64];
static void describe(sb_t *o)
{
	if (deepdesc[0])
	{
		sb_puts(o, deepdesc);
		return;
	}
	sb_puts(o, "tree=");
	if (NN)
		tree_text(0, o);
	sb_puts(o, " returns=");
	for (int i = 0; i < MAXCALLS && i < (ng > nr ? ng : nr); i++)
		sb_printf(o, "%s%s", i ? "," : "", CODEN[choice[i]]);
}

/* ---------- reference traversal ---------- */
static int rcall;
static int ref_answer(void)
{
	int c = rcall < MAXCALLS ? choice[rcall] : 0;
	rcall++;
	return CODES[c];
}
static int skipped_container_seen;
static int ref_visit(int n)
{
	rlog[nr].node = n;
	rlog[nr].second = 0;
	nr++;
	int r = ref_answer();
	if (r == JSON_C_VISIT_RETURN_SKIP && (N[n].k == T_ARR || N[n].k == T_OBJ))
		skipped_container_seen = 1;
	if (r == JSON_C_VISIT_RETURN_SKIP || r == JSON_C_VISIT_RETURN_POP || r == JSON_C_VISIT_RETURN_STOP || r == JSON_C_VISIT_RETURN_ERROR)
		return r;
	if (r != JSON_C_VISIT_RETURN_CONTINUE)
		return JSON_C_VISIT_RETURN_ERROR;
	if (N[n].k == T_LEAF || N[n].k == T_NULL)
		return JSON_C_VISIT_RETURN_CONTINUE;
	for (int i = 0; i < N[n].nch; i++)
	{
		int c = ref_visit(N[n].ch[i]);
		if (c == JSON_C_VISIT_RETURN_POP)
			break;
		if (c == JSON_C_VISIT_RETURN_STOP || c == JSON_C_VISIT_RETURN_ERROR)
			return c;
	}
	rlog[nr].node = n;
	rlog[nr].second = 1;
	nr++;
	r = ref_answer();
	if (r == JSON_C_VISIT_RETURN_CONTINUE || r == JSON_C_VISIT_RETURN_SKIP || r == JSON_C_VISIT_RETURN_POP)
		return JSON_C_VISIT_RETURN_CONTINUE;
	if (r == JSON_C_VISIT_RETURN_STOP || r == JSON_C_VISIT_RETURN_ERROR)
		return r;
	return JSON_C_VISIT_RETURN_ERROR;
}

/* ---------- real callback ---------- */
static int gcall;
static int cb(json_object *jso, int flags, json_object *parent, const char *key, size_t *index, void *ud)
{
	(void)ud;
	int node = -1;
	/* identify the node: by pointer, or for JSON null by (parent, key/index) */
	if (jso)
	{
		for (int i = 0; i < NN; i++)
			if (N[i].jso == jso)
				node = i;
	}
	else
	{
		int p = -1;
		for (int i = 0; i < NN; i++)
			if (parent && N[i].jso == parent)
				p = i;
		if (!parent && NN && N[0].k == T_NULL)
			node = 0;
		else if (p >= 0)
		{
			int slot = -1;
			if (N[p].k == T_ARR && index)
				slot = (int)*index;
			else if (N[p].k == T_OBJ && key && key[0] == 'k')
				slot = atoi(key + 1);
			if (slot >= 0 && slot < N[p].nch)
				node = N[p].ch[slot];
		}
	}
	if (node < 0)
	{
		if (!gbad)
			snprintf(gbadmsg, sizeof gbadmsg, "call %d: the node passed (%p) is not a node of the tree", gcall, (void *)jso);
		gbad = 1;
	}
	else
	{
		/* argument checks: parent, key or index */
		int p = N[node].parent;
		struct json_object *wantp = p >= 0 ? N[p].jso : NULL;
		char wk[16];
		snprintf(wk, sizeof wk, "k%d", N[node].slot);
		if (parent != wantp)
		{
			if (!gbad)
				snprintf(gbadmsg, sizeof gbadmsg, "call %d (node %d): parent argument %p, the node's parent is %p", gcall, node, (void *)parent, (void *)wantp);
			gbad = 1;
		}
		else if (p < 0 ? (key || index) : N[p].k == T_OBJ ? (!key || strcmp(key, wk) || index) : (!index || *index != (size_t)N[node].slot || key))
		{
			if (!gbad)
				snprintf(gbadmsg, sizeof gbadmsg, "call %d (node %d): wrong key/index arguments (key %s, index %s)", gcall, node, key ? key : "NULL", index ? "set" : "NULL");
			gbad = 1;
		}
		if ((flags & ~JSON_C_VISIT_SECOND) != 0)
		{
			if (!gbad)
				snprintf(gbadmsg, sizeof gbadmsg, "call %d: unknown flag bits 0x%x", gcall, flags);
			gbad = 1;
		}
	}
	if (ng < MAXCALLS)
	{
		glog[ng].node = node;
		glog[ng].second = !!(flags & JSON_C_VISIT_SECOND);
		ng++;
	}
	int c = gcall < MAXCALLS ? choice[gcall] : 0;
	gcall++;
	return CODES[c];
}

static struct json_object *build(int n)
{
	struct json_object *o = NULL;
	switch (N[n].k)
	{
	case T_LEAF: o = json_object_new_int(n); break;
	case T_NULL: o = NULL; break;
	case T_ARR:
		o = json_object_new_array();
		for (int i = 0; i < N[n].nch; i++)
			json_object_array_add(o, build(N[n].ch[i]));
		break;
	case T_OBJ:
		o = json_object_new_object();
		for (int i = 0; i < N[n].nch; i++)
		{
			char k[16];
			snprintf(k, sizeof k, "k%d", i);
			json_object_object_add(o, k, build(N[n].ch[i]));
		}
		break;
	}
	N[n].jso = o;
	return o;
}

static int dev_bound;
static void explore_tree(void)
{
	if (!mc_case_begin())
		return;
	struct json_object *root = build(0);
	memset(choice, 0, sizeof choice);
	nprefix = 0;
	long runs = 0;
	/* silence the library's diagnostics for invalid return codes */
	for (;;)
	{
		runs++;
		nr = ng = 0;
		rcall = gcall = 0;
		gbad = 0;
		skipped_container_seen = 0;
		int rr = ref_visit(0);
		int want = (rr == JSON_C_VISIT_RETURN_CONTINUE || rr == JSON_C_VISIT_RETURN_SKIP || rr == JSON_C_VISIT_RETURN_POP || rr == JSON_C_VISIT_RETURN_STOP) ? 0 : -1;
		/* the reserved second argument is documented as unused: whatever is passed, the callbacks see only
		 * 0 and JSON_C_VISIT_SECOND (the value rotates over the explored vectors) */
		static const int future[4] = {0, JSON_C_VISIT_SECOND, 1, -1};
		int got = json_c_visit(root, future[runs & 3], cb, NULL);
		int same = ng == nr;
		for (int i = 0; same && i < nr; i++)
			same = glog[i].node == rlog[i].node && glog[i].second == rlog[i].second;
		if (!same && skipped_container_seen && ng > nr)
		{
			/* the statement leaves open whether a skipped container still gets its second call */
			MC_COUNT("unspecified_runs", 1);
		}
		else if (gbad)
			mc_violation("callback-arguments", "%s", gbadmsg);
		else if (!same)
		{
			char a[300] = "", b[300] = "";
			size_t la = 0, lb = 0;
			for (int i = 0; i < nr && la < 280; i++)
				la += (size_t)snprintf(a + la, sizeof a - la, "%d%s ", rlog[i].node, rlog[i].second ? "'" : "");
			for (int i = 0; i < ng && lb < 280; i++)
				lb += (size_t)snprintf(b + lb, sizeof b - lb, "%d%s ", glog[i].node, glog[i].second ? "'" : "");
			mc_violation("call-sequence-differs", "calls made: %s; reference traversal: %s(node numbers, ' = second visit)", b, a);
		}
		else if ((got == 0) != (want == 0))
			mc_violation("final-result-differs", "json_c_visit returned %d, reference %d", got, want);
		{
			uint64_t h = (uint64_t)got + 7;
			for (int i = 0; i < ng; i++)
				h = h * 31 + (uint64_t)(glog[i].node * 2 + glog[i].second);
			mc_outcome(h);
		}
		/* next choice vector: executed length is the number of calls the reference made */
		int m = nr < MAXCALLS ? nr : MAXCALLS;
		int i;
		for (i = m - 1; i >= 0; i--)
		{
			if (choice[i] == 5)
				continue;
			int dev = 0;
			for (int k = 0; k < i; k++)
				dev += choice[k] != 0;
			if (choice[i] == 0 && dev + 1 > dev_bound)
				continue;
			break;
		}
		if (i < 0)
			break;
		choice[i]++;
		for (int k = i + 1; k < MAXCALLS; k++)
			choice[k] = 0;
	}
	MC_COUNT("calls", runs);
	MC_COUNT("runs", runs);
	json_object_put(root);
	if (vf_live())
	{
		mc_violation("leak", "%ld blocks live", vf_live());
		mc_restart_worker();
	}
	memset(choice, 0, sizeof choice);
	nr = ng = 0;
	{
		sb_t t = {0};
		tree_text(0, &t);
		mc_nontrivial(mc_hash(t.p, t.n, 0));
		sb_free(&t);
	}
	mc_sample_current();
}

/* ---------- all tree shapes with exactly n nodes ---------- */
/* enumerates forests: fills children of node `parent` using `left` remaining nodes */
static int target_nodes;
static void gen_rec(int next_to_expand);
static void gen_children(int node, int count, int ci, int next_to_expand)
{
	/* choose kind of each child, all children appended first (BFS numbering), expanded later */
	(void)ci;
	(void)count;
	(void)node;
	gen_rec(next_to_expand);
}
/* Simple scheme: nodes are created in BFS order; node i (if container) chooses its number of
 * children c_i >= 0 such that the total equals target; kinds: leaf/null have 0 children. */
static void gen_rec(int i)
{
	if (i == NN)
	{
		if (NN == target_nodes)
			explore_tree();
		return;
	}
	/* node i exists; choose its kind and child count */
	for (int k = 0; k < 4; k++)
	{
		N[i].k = (enum tk)k;
		if (k == T_LEAF || k == T_NULL)
		{
			N[i].nch = 0;
			gen_rec(i + 1);
		}
		else
		{
			int room = target_nodes - NN;
			for (int c = 0; c <= room; c++)
			{
				int save = NN;
				N[i].nch = c;
				for (int j = 0; j < c; j++)
				{
					N[i].ch[j] = NN;
					N[NN].parent = i;
					N[NN].slot = j;
					NN++;
				}
				gen_rec(i + 1);
				NN = save;
			}
		}
	}
}

/* ---- scale: a chain of containers deeper than any limit in the library (trees built through the API
 * or parsed with a large depth limit can be that deep); every node is still visited ---- */
static int deep_calls, deep_first, deep_second, deep_stop_at, deep_bad;
static int deep_cb(json_object *jso, int flags, json_object *parent, const char *key, size_t *index, void *ud)
{
	(void)ud;
	(void)parent;
	(void)key;
	(void)index;
	if (flags & JSON_C_VISIT_SECOND)
		deep_second++;
	else
		deep_first++;
	if ((flags & JSON_C_VISIT_SECOND) && !json_object_is_type(jso, json_type_array) && !json_object_is_type(jso, json_type_object))
		deep_bad = 1;
	deep_calls++;
	if (deep_stop_at && deep_calls == deep_stop_at)
		return JSON_C_VISIT_RETURN_STOP;
	return JSON_C_VISIT_RETURN_CONTINUE;
}
static void fam_deep(void)
{
	static const int depths[] = {31, 32, 33, 40, 100, 1000};
	for (unsigned di = 0; di < sizeof depths / sizeof depths[0]; di++)
		for (int how = 0; how < 2; how++)
		{
			int D = depths[di];
			snprintf(deepdesc, sizeof deepdesc, "deep chain depth=%d built=%s", D, how ? "parsed" : "api");
			if (!mc_case_begin())
				continue;
			struct json_object *root;
			if (how == 0)
			{
				/* innermost first: [7,"s"] wrapped alternately in an object member and an array */
				struct json_object *v = json_object_new_array();
				json_object_array_add(v, json_object_new_int(7));
				json_object_array_add(v, json_object_new_string("s"));
				for (int i = 1; i < D; i++)
				{
					struct json_object *w;
					if (i & 1)
					{
						w = json_object_new_object();
						json_object_object_add(w, "k", v);
						json_object_object_add(w, "z", NULL);
					}
					else
					{
						w = json_object_new_array();
						json_object_array_add(w, v);
						json_object_array_add(w, json_object_new_int(i));
					}
					v = w;
				}
				root = v;
			}
			else
			{
				sb_t t = {0};
				for (int i = D - 1; i >= 1; i--)
					sb_puts(&t, (i & 1) ? "{\"k\":" : "[");
				sb_puts(&t, "[7,\"s\"]");
				for (int i = 1; i < D; i++)
					sb_puts(&t, (i & 1) ? ",\"z\":null}" : ",1]");
				struct json_tokener *tok = json_tokener_new_ex(D + 2);
				root = json_tokener_parse_ex(tok, sb_str(&t), (int)t.n + 1);
				json_tokener_free(tok);
				sb_free(&t);
				if (!root)
				{
					mc_violation("harness:deep-document-not-parsed", "could not build the %d-deep document", D);
					continue;
				}
			}
			/* D containers; nodes: D containers + (D-1) extra siblings + 2 leaves */
			int nodes = D + (D - 1) + 2;
			for (int stop = 0; stop < 3; stop++)
			{
				deep_calls = deep_first = deep_second = deep_bad = 0;
				deep_stop_at = stop == 0 ? 0 : stop == 1 ? D + 1 /* the innermost 7 */ : 2;
				MC_COUNT("calls", 1);
				int rc = json_c_visit(root, 0, deep_cb, NULL);
				int want_calls = stop == 0 ? nodes + D : deep_stop_at;
				if (rc != 0 || deep_calls != want_calls || deep_bad || (stop == 0 && (deep_first != nodes || deep_second != D)))
					mc_violation("call-sequence-differs", "%d-deep chain (%s), stop=%d: json_c_visit returned %d after %d calls (%d first, %d second); reference: 0 after %d calls (%d first, %d second)", D,
					             how ? "parsed" : "built through the API", stop, rc, deep_calls, deep_first, deep_second, want_calls, stop == 0 ? nodes : -1, stop == 0 ? D : -1);
			}
			json_object_put(root);
			if (vf_live())
			{
				mc_violation("leak", "%ld blocks live", vf_live());
				mc_restart_worker();
			}
			mc_nontrivial(mc_hash_str(deepdesc));
			mc_sample_current();
		}
	deepdesc[0] = 0;
}

static void enumerate(void)
{
	fam_deep();
	int maxn = (int)mc_opt_int("nodes", mc_tier ? 7 : 5);
	(void)gen_children;
	for (target_nodes = 1; target_nodes <= maxn; target_nodes++)
	{
		dev_bound = target_nodes <= (mc_tier ? 4 : 3) ? 99 : (mc_tier ? 4 : 3);
		NN = 1;
		N[0].parent = -1;
		N[0].slot = 0;
		gen_rec(0);
	}
}

static int replay(const char *desc)
{
	(void)desc;
	fprintf(stderr, "c17: the families are small; replay re-runs the exploration\n");
	enumerate();
	return (int)mc_violations();
}
int main(int argc, char **argv)
{
	/* the library prints a diagnostic for every invalid return code: keep stderr quiet */
	freopen("/dev/null", "w", stderr);
	struct mc_harness h = {"c17", enumerate, describe, replay};
	return mc_main(argc, argv, &h);
}
