/* C07 - a JSON array is a sequence with null gaps.  BFS over operation histories
 * with boundary-relative indices; oracle = plain list model + exact release set;
 * plus sort/bsearch on every small array.  Sanitizer build, poison-filled memory. */
#include "mc.h"
#include "json.h"
#include "arraylist.h"
#include <errno.h>
#include <limits.h>
#include <stdlib.h>
#include <string.h>

#define MAXLEN 96
#define MAXEL 200
#define GROW_ROOM 13 /* an operation that would take the length beyond prefill+GROW_ROOM is not taken */
struct st
{
	struct json_object *arr;
	struct json_object *el[MAXEL]; /* element id -> node (ids start at 1) */
	int destroyed[MAXEL];
	int nel;
	int m[MAXLEN + 8]; /* model: element id or 0 for null */
	int len;
	int prefill;
	int dead;
};
static struct st *cur_st;

static void el_deleted(struct json_object *o, void *ud)
{
	(void)o;
	int id = (int)(intptr_t)ud;
	if (cur_st && id > 0 && id < MAXEL)
		cur_st->destroyed[id]++;
}
static int new_el(struct st *s)
{
	int id = ++s->nel;
	if (id >= MAXEL)
		abort();
	s->el[id] = json_object_new_int(id);
	json_object_set_userdata(s->el[id], (void *)(intptr_t)id, el_deleted);
	return id;
}

enum
{
	K_CREATE,
	K_ADD,
	K_PUT,
	K_INSERT,
	K_DEL,
	K_SHRINK,
	K_PUT_SAME /* put the element that is already there (the caller hands in its own extra reference) */
};
#define NIDX 9
#define NDI 5
#define NDN 5
static size_t idx_arg(const struct st *s, int k)
{
	size_t len = (size_t)s->len;
	switch (k)
	{
	case 0: return 0;
	case 1: return len ? len - 1 : 0;
	case 2: return len;
	case 3: return len + 1;
	case 4: return len + 3;
	case 5: return SIZE_MAX - 1;
	case 6: return SIZE_MAX;
	/* indices that pass every arithmetic guard, so that the refusal comes from the allocator itself */
	case 7: return SIZE_MAX / sizeof(void *) - 1;
	default: return ((size_t)1 << 40) + 5;
	}
}
static size_t deli_arg(const struct st *s, int k)
{
	size_t len = (size_t)s->len;
	switch (k)
	{
	case 0: return 0;
	case 1: return len ? len - 1 : 0;
	case 2: return len;
	case 3: return len + 1;
	default: return SIZE_MAX;
	}
}
static size_t deln_arg(const struct st *s, size_t i, int k)
{
	size_t len = (size_t)s->len;
	switch (k)
	{
	case 0: return 0;
	case 1: return 1;
	case 2: return len >= i ? len - i : 0;
	case 3: return len >= i ? len - i + 1 : 1;
	default: return SIZE_MAX;
	}
}
static void opname(int op, sb_t *o)
{
	int kind = op >> 8, a = op & 255;
	static const char *ix[] = {"0", "len-1", "len", "len+1", "len+3", "SIZE_MAX-1", "SIZE_MAX", "SIZE_MAX/8-1", "2^40+5"};
	static const char *dn[] = {"0", "1", "len-i", "len-i+1", "SIZE_MAX"};
	static const char *di[] = {"0", "len-1", "len", "len+1", "SIZE_MAX"};
	switch (kind)
	{
	case K_CREATE:
		if (a < 4)
			sb_printf(o, "new_array(cap#%d)", a);
		else
			sb_printf(o, "new_array+prefill#%d", a - 4);
		break;
	case K_ADD: sb_printf(o, "add(%s)", a ? "NULL" : "elem"); break;
	case K_PUT: sb_printf(o, "put_idx(%s,%s)", ix[a >> 1], (a & 1) ? "NULL" : "elem"); break;
	case K_INSERT: sb_printf(o, "insert_idx(%s,%s)", ix[a >> 1], (a & 1) ? "NULL" : "elem"); break;
	case K_DEL: sb_printf(o, "del_idx(%s,%s)", di[a / NDN], dn[a % NDN]); break;
	case K_SHRINK: sb_printf(o, "shrink(%s)", a == 0 ? "0" : a == 1 ? "1" : "len"); break;
	case K_PUT_SAME: sb_printf(o, "put_idx(%s, the element already there)", a ? "len-1" : "0"); break;
	}
}
static void *fresh(void)
{
	struct st *s = calloc(1, sizeof *s);
	cur_st = s;
	return s;
}
static void fail(struct st *s, const char *sig, const char *fmt, ...)
{
	char msg[600];
	va_list ap;
	va_start(ap, fmt);
	vsnprintf(msg, sizeof msg, fmt, ap);
	va_end(ap);
	mc_violation(sig, "%s", msg);
	s->dead = 1;
}
/* after every transition: length, identity at every index, null past the end, release set */
static void compare(struct st *s, const int *expect_destroyed, const char *what)
{
	size_t len = json_object_array_length(s->arr);
	if (len != (size_t)s->len)
	{
		fail(s, "length-differs-from-model", "%s: length %zu, model %d", what, len, s->len);
		return;
	}
	for (int k = 0; k < s->len + 3; k++)
	{
		struct json_object *g = json_object_array_get_idx(s->arr, (size_t)k);
		struct json_object *want = (k < s->len && s->m[k]) ? s->el[s->m[k]] : NULL;
		if (g != want)
		{
			fail(s, k < s->len ? "element-differs-from-model" : "read-past-end-not-null", "%s: index %d holds %p, model element #%d (%p)", what, k, (void *)g,
			     k < s->len ? s->m[k] : 0, (void *)want);
			return;
		}
		if (g && (json_object_get_int(g) != s->m[k]))
		{
			fail(s, "element-corrupted", "%s: element at %d reads %d, expected %d", what, k, json_object_get_int(g), s->m[k]);
			return;
		}
	}
	if (json_object_array_get_idx(s->arr, SIZE_MAX) || json_object_array_get_idx(s->arr, (size_t)s->len + 1000))
		fail(s, "read-past-end-not-null", "%s: far index returned non-null", what);
	for (int id = 1; id <= s->nel; id++)
		if (s->destroyed[id] != expect_destroyed[id])
		{
			fail(s, s->destroyed[id] > expect_destroyed[id] ? "element-released-unexpectedly" : "element-not-released",
			     "%s: element #%d destroyed %d time(s), model says %d", what, id, s->destroyed[id], expect_destroyed[id]);
			return;
		}
}

static void apply(void *vs, int op, int check)
{
	struct st *s = vs;
	cur_st = s;
	if (s->dead)
		return;
	int kind = op >> 8, a = op & 255;
	char what[96];
	int exp_d[MAXEL];
	memcpy(exp_d, s->destroyed, sizeof exp_d);
	sb_t wn;
	sb_init_fixed(&wn, what, sizeof what);
	opname(op, &wn);
	MC_COUNT("calls", 1);
	switch (kind)
	{
	case K_CREATE:
		s->arr = (a == 3 || a >= 4) ? json_object_new_array() : json_object_new_array_ext(a);
		if (!s->arr)
			fail(s, "constructor-failed", "%s returned NULL", what);
		else if (a >= 4)
		{
			/* start from a non-initial state: an array filled up to a capacity-doubling boundary */
			static const int fills[] = {31, 32, 33, 63, 64};
			s->prefill = fills[a - 4];
			for (int i = 0; i < s->prefill; i++)
			{
				int id = (i % 5 == 3) ? 0 : new_el(s);
				if (json_object_array_add(s->arr, id ? s->el[id] : NULL) != 0)
				{
					fail(s, "append-failed", "prefill add %d failed", i);
					return;
				}
				s->m[s->len++] = id;
			}
		}
		break;
	case K_ADD:
	{
		int id = a ? 0 : new_el(s);
		int rc = json_object_array_add(s->arr, id ? s->el[id] : NULL);
		if (rc != 0)
		{
			fail(s, "append-failed", "%s returned %d", what, rc);
			return;
		}
		s->m[s->len++] = id;
		break;
	}
	case K_PUT:
	case K_INSERT:
	{
		size_t i = idx_arg(s, a >> 1);
		int id = (a & 1) ? 0 : new_el(s);
		struct json_object *v = id ? s->el[id] : NULL;
		int ok = i < 4096; /* satisfiable; huge indices must be refused */
		int rc = kind == K_PUT ? json_object_array_put_idx(s->arr, i, v) : json_object_array_insert_idx(s->arr, i, v);
		if (ok)
		{
			if (rc != 0)
			{
				fail(s, "put-insert-failed", "%s (index %zu) returned %d", what, i, rc);
				return;
			}
			int ii = (int)i;
			if (kind == K_INSERT && ii < s->len)
			{
				memmove(&s->m[ii + 1], &s->m[ii], (size_t)(s->len - ii) * sizeof(int));
				s->m[ii] = id;
				s->len++;
			}
			else
			{
				if (ii < s->len)
				{
					if (s->m[ii])
						exp_d[s->m[ii]]++;
				}
				else
				{
					for (int k = s->len; k < ii; k++)
						s->m[k] = 0;
					s->len = ii + 1;
				}
				s->m[ii] = id;
			}
		}
		else
		{
			if (rc == 0)
			{
				fail(s, "huge-index-accepted", "%s (index %zu) returned 0", what, i);
				return;
			}
			/* refused: nothing changed, the caller still owns the value */
			if (check)
				compare(s, exp_d, what);
			if (id)
			{
				exp_d[id]++;
				if (json_object_put(v) != 1 && check)
					fail(s, "refused-value-not-owned-by-caller", "%s failed, yet releasing the value did not destroy it", what);
			}
		}
		break;
	}
	case K_PUT_SAME:
	{
		if (!s->len)
			break;
		size_t i = a ? (size_t)s->len - 1 : 0;
		struct json_object *e = json_object_array_get_idx(s->arr, i);
		if (!e)
			break;
		/* the array's reference is released, the caller's extra one is taken: nothing is destroyed */
		int rc = json_object_array_put_idx(s->arr, i, json_object_get(e));
		if (rc != 0)
		{
			fail(s, "put-insert-failed", "%s returned %d", what, rc);
			return;
		}
		break;
	}
	case K_DEL:
	{
		size_t i = deli_arg(s, a / NDN);
		size_t n = deln_arg(s, i, a % NDN);
		int valid = i < (size_t)s->len && n <= (size_t)s->len - i;
		int rc = json_object_array_del_idx(s->arr, i, n);
		if (valid)
		{
			if (rc != 0)
			{
				fail(s, "delete-failed", "%s (i=%zu,n=%zu) returned %d on a valid range", what, i, n, rc);
				return;
			}
			for (size_t k = i; k < i + n; k++)
				if (s->m[k])
					exp_d[s->m[k]]++;
			memmove(&s->m[i], &s->m[i + n], ((size_t)s->len - i - n) * sizeof(int));
			s->len -= (int)n;
		}
		else if (rc == 0)
		{
			fail(s, "out-of-range-delete-accepted", "%s (i=%zu,n=%zu) returned 0 on length %d", what, i, n, s->len);
			return;
		}
		break;
	}
	case K_SHRINK:
	{
		int e = a == 0 ? 0 : a == 1 ? 1 : s->len;
		int rc = json_object_array_shrink(s->arr, e);
		if (rc != 0)
			fail(s, "shrink-failed", "%s returned %d", what, rc);
		else if (check)
		{
			struct array_list *al = json_object_get_array(s->arr);
			size_t want = (size_t)s->len + (size_t)e;
			if (want == 0)
				want = 1;
			if (al->size < (size_t)s->len)
				fail(s, "capacity-below-length", "%s: capacity %zu < length %d", what, al->size, s->len);
		}
		break;
	}
	}
	if (check && !s->dead && s->arr)
		compare(s, exp_d, what);
}
static int menu(void *vs, int *ops, int cap)
{
	struct st *s = vs;
	int n = 0;
	(void)cap;
	if (s->dead)
		return 0;
	if (!s->arr)
	{
		int ncreate = mc_tier ? 9 : 6; /* quick: capacities + prefill 31, 32; thorough: + 33, 63, 64 */
		for (int a = 0; a < ncreate; a++)
			ops[n++] = (K_CREATE << 8) | a;
		return n;
	}
	if (s->len + 4 > s->prefill + GROW_ROOM || s->nel + 2 >= MAXEL)
	{
		/* length cap: only non-growing operations */
		for (int a = 0; a < NDI * NDN; a++)
			ops[n++] = (K_DEL << 8) | a;
		return n;
	}
	ops[n++] = (K_ADD << 8) | 0;
	ops[n++] = (K_ADD << 8) | 1;
	for (int a = 0; a < NIDX * 2; a++)
	{
		ops[n++] = (K_PUT << 8) | a;
		ops[n++] = (K_INSERT << 8) | a;
	}
	for (int a = 0; a < NDI * NDN; a++)
		ops[n++] = (K_DEL << 8) | a;
	if (s->len)
	{
		ops[n++] = (K_PUT_SAME << 8) | 0;
		ops[n++] = (K_PUT_SAME << 8) | 1;
	}
	for (int a = 0; a < 3; a++)
		ops[n++] = (K_SHRINK << 8) | a;
	return n;
}
static uint64_t key(void *vs)
{
	struct st *s = vs;
	unsigned char k[MAXLEN + 32];
	int n = 0;
	k[n++] = (unsigned char)s->dead;
	k[n++] = s->arr ? 1 : 0;
	if (s->arr)
	{
		struct array_list *al = json_object_get_array(s->arr);
		k[n++] = (unsigned char)s->len;
		k[n++] = (unsigned char)(al->size > 250 ? 250 : al->size);
		for (int i = 0; i < s->len; i++)
			k[n++] = s->m[i] ? 1 : 0;
	}
	return mc_hash(k, (size_t)n, 5);
}
static void destroy(void *vs, int check)
{
	struct st *s = vs;
	cur_st = s;
	if (s->arr)
	{
		int exp_d[MAXEL];
		memcpy(exp_d, s->destroyed, sizeof exp_d);
		for (int i = 0; i < s->len; i++)
			if (s->m[i])
				exp_d[s->m[i]]++;
		int rc = json_object_put(s->arr);
		if (check && !s->dead)
		{
			if (rc != 1)
				mc_violation("array-not-freed", "json_object_put(array) returned %d", rc);
			for (int id = 1; id <= s->nel; id++)
				if (s->destroyed[id] != 1 || exp_d[id] != 1)
					mc_violation("element-lifetime", "at the end element #%d was destroyed %d time(s) (model %d)", id, s->destroyed[id], exp_d[id]);
		}
	}
	int dead = s->dead;
	cur_st = NULL;
	free(s);
	if (check && !dead && vf_live())
	{
		mc_violation("leak", "%ld blocks live after releasing the array", vf_live());
		mc_restart_worker();
	}
	if (dead && vf_live())
		mc_restart_worker();
}
static const struct bfs_cb cb = {fresh, apply, menu, key, destroy, opname};

/* ---------- sort / bsearch ---------- */
static char sortdesc[128];
static int in_sort;
static int cmp_int(const void *a, const void *b)
{
	struct json_object *const *x = a, *const *y = b;
	int i = json_object_get_int(*x), j = json_object_get_int(*y);
	return (i > j) - (i < j);
}
static void fam_sort(void)
{
	in_sort = 1;
	int maxlen = mc_tier ? 7 : 6;
	for (int len = 0; len <= maxlen; len++)
	{
		int total = 1;
		for (int k = 0; k < len; k++)
			total *= 3;
		for (int x = 0; x < total; x++)
			for (int cap = 0; cap < 2; cap++)
			{
				int vals[8], y = x;
				for (int k = 0; k < len; k++)
				{
					vals[k] = y % 3;
					y /= 3;
				}
				sb_t d;
				sb_init_fixed(&d, sortdesc, sizeof sortdesc);
				sb_printf(&d, "sort cap=%d values=", cap);
				for (int k = 0; k < len; k++)
					sb_printf(&d, "%d", vals[k]);
				if (!mc_case_begin())
					continue;
				struct json_object *arr = cap ? json_object_new_array() : json_object_new_array_ext(len);
				struct json_object *els[8];
				for (int k = 0; k < len; k++)
				{
					els[k] = json_object_new_int(vals[k]);
					json_object_array_add(arr, els[k]);
				}
				MC_COUNT("calls", 5);
				json_object_array_sort(arr, cmp_int);
				if (json_object_array_length(arr) != (size_t)len)
					mc_violation("sort-changes-length", "length %zu after sort", json_object_array_length(arr));
				int seen[8] = {0};
				for (int k = 0; k < len; k++)
				{
					struct json_object *g = json_object_array_get_idx(arr, (size_t)k);
					int found = 0;
					for (int j = 0; j < len; j++)
						if (els[j] == g && !seen[j])
						{
							seen[j] = found = 1;
							break;
						}
					if (!found)
						mc_violation("sort-not-a-permutation", "element at %d after sort is not one of the original elements (or appears twice)", k);
					if (k && json_object_get_int(json_object_array_get_idx(arr, (size_t)k - 1)) > json_object_get_int(g))
						mc_violation("sort-not-ordered", "elements %d and %d out of order", k - 1, k);
				}
				for (int keyv = 0; keyv < 4; keyv++)
				{
					struct json_object *kobj = json_object_new_int(keyv);
					struct json_object *r = json_object_array_bsearch(kobj, arr, cmp_int);
					int present = 0;
					for (int k = 0; k < len; k++)
						present |= vals[k] == keyv;
					if (!!r != present)
						mc_violation("bsearch-disagrees-with-model", "bsearch(%d) %s, model %s", keyv, r ? "found" : "not found", present ? "contains it" : "does not");
					else if (r && json_object_get_int(r) != keyv)
						mc_violation("bsearch-wrong-element", "bsearch(%d) returned element %d", keyv, json_object_get_int(r));
					json_object_put(kobj);
				}
				json_object_put(arr);
				if (vf_live())
				{
					mc_violation("leak", "%ld blocks live", vf_live());
					mc_restart_worker();
				}
				mc_nontrivial(mc_hash_str(sortdesc));
				mc_sample_current();
			}
	}
	in_sort = 0;
}

/* ---------- scale: scripted long histories on large arrays (capacity >= 256, wide gaps) ---------- */
#define SC_MAX 4096
static struct json_object *sc_el[SC_MAX];
static int sc_dead[SC_MAX], sc_n;
static int sc_model[SC_MAX], sc_len;
static int in_scale;
static char scaledesc[128];
static void sc_deleted(struct json_object *o, void *ud)
{
	(void)o;
	sc_dead[(int)(intptr_t)ud]++;
}
static int sc_new(void)
{
	int id = ++sc_n;
	sc_el[id] = json_object_new_int(id);
	json_object_set_userdata(sc_el[id], (void *)(intptr_t)id, sc_deleted);
	return id;
}
static int sc_compare(struct json_object *arr, const char *what)
{
	if (json_object_array_length(arr) != (size_t)sc_len)
	{
		mc_violation("scale:length-differs-from-model", "%s: length %zu, model %d", what, json_object_array_length(arr), sc_len);
		return 0;
	}
	for (int k = 0; k < sc_len + 2; k++)
	{
		struct json_object *g = json_object_array_get_idx(arr, (size_t)k);
		struct json_object *want = (k < sc_len && sc_model[k]) ? sc_el[sc_model[k]] : NULL;
		if (g != want || (g && json_object_get_int(g) != sc_model[k]))
		{
			mc_violation("scale:element-differs-from-model", "%s: index %d holds %p, model element #%d", what, k, (void *)g, k < sc_len ? sc_model[k] : 0);
			return 0;
		}
	}
	struct array_list *al = json_object_get_array(arr);
	if (al->size < (size_t)sc_len || vf_block_size(al->array) < (size_t)sc_len * sizeof(void *))
	{
		mc_violation("scale:capacity-below-length", "%s: capacity %zu (allocation %zu bytes) for length %d", what, al->size, vf_block_size(al->array), sc_len);
		return 0;
	}
	return 1;
}
static void sc_put(struct json_object *arr, int idx, int id, int insert)
{
	if (insert && idx < sc_len)
	{
		memmove(&sc_model[idx + 1], &sc_model[idx], (size_t)(sc_len - idx) * sizeof(int));
		sc_model[idx] = id;
		sc_len++;
		return;
	}
	for (int k = sc_len; k < idx; k++)
		sc_model[k] = 0;
	sc_model[idx] = id;
	if (idx >= sc_len)
		sc_len = idx + 1;
	(void)arr;
}
static void fam_scale(void)
{
	in_scale = 1;
	/* each script: initial capacity, number of appends, then (gap put, append, inserts, range delete, shrink, far put) */
	static const int fills[] = {100, 129, 257, 300, 513, 1025};
	static const int gaps[] = {1, 40, 129, 200, 400, 900};
	for (unsigned fi = 0; fi < sizeof fills / sizeof fills[0]; fi++)
		for (unsigned gi = 0; gi < sizeof gaps / sizeof gaps[0]; gi++)
			for (int cap0 = 0; cap0 < 2; cap0++)
			{
				snprintf(scaledesc, sizeof scaledesc, "scale fill=%d gap=%d cap=%s", fills[fi], gaps[gi], cap0 ? "default" : "0");
				if (!mc_case_begin())
					continue;
				memset(sc_dead, 0, sizeof sc_dead);
				sc_n = sc_len = 0;
				struct json_object *arr = cap0 ? json_object_new_array() : json_object_new_array_ext(0);
				int ok = 1;
				for (int i = 0; i < fills[fi] && ok; i++)
				{
					int id = (i % 7 == 3) ? 0 : sc_new();
					if (json_object_array_add(arr, id ? sc_el[id] : NULL))
						ok = 0;
					sc_model[sc_len++] = id;
				}
				MC_COUNT("calls", fills[fi]);
				ok = ok && sc_compare(arr, "after the appends");
				if (ok)
				{
					int idx = sc_len + gaps[gi], id = sc_new();
					if (json_object_array_put_idx(arr, (size_t)idx, sc_el[id]))
						mc_violation("scale:put-failed", "put_idx(%d) on length %d failed", idx, sc_len), ok = 0;
					else
						sc_put(arr, idx, id, 0);
					ok = ok && sc_compare(arr, "after put_idx beyond the end");
				}
				if (ok)
				{
					int id = sc_new();
					json_object_array_add(arr, sc_el[id]);
					sc_model[sc_len++] = id;
					ok = sc_compare(arr, "after one more append");
				}
				for (int r = 0; r < 5 && ok; r++)
				{
					int id = sc_new(), at = r * (sc_len / 5);
					if (json_object_array_insert_idx(arr, (size_t)at, sc_el[id]))
						ok = 0;
					else
						sc_put(arr, at, id, 1);
					ok = ok && sc_compare(arr, "after insert_idx");
				}
				if (ok)
				{
					int at = sc_len / 3, cnt = sc_len / 2;
					int exp[SC_MAX];
					memcpy(exp, sc_dead, sizeof exp);
					for (int k = at; k < at + cnt; k++)
						if (sc_model[k])
							exp[sc_model[k]]++;
					if (json_object_array_del_idx(arr, (size_t)at, (size_t)cnt))
						mc_violation("scale:delete-failed", "del_idx(%d,%d) on length %d failed", at, cnt, sc_len), ok = 0;
					else
					{
						memmove(&sc_model[at], &sc_model[at + cnt], (size_t)(sc_len - at - cnt) * sizeof(int));
						sc_len -= cnt;
						if (memcmp(exp, sc_dead, sizeof exp))
							mc_violation("scale:release-set-differs", "del_idx(%d,%d) released a different set of elements than the model", at, cnt), ok = 0;
					}
					ok = ok && sc_compare(arr, "after del_idx of a long range");
				}
				if (ok)
				{
					json_object_array_shrink(arr, 0);
					ok = sc_compare(arr, "after shrink");
				}
				if (ok)
				{
					int idx = sc_len + gaps[(gi + 3) % 6] + 300, id = sc_new();
					if (json_object_array_insert_idx(arr, (size_t)idx, sc_el[id]) == 0)
						sc_put(arr, idx, id, 0);
					ok = sc_compare(arr, "after insert_idx far beyond the end of a shrunk array");
				}
				json_object_put(arr);
				for (int id = 1; id <= sc_n && ok; id++)
					if (sc_dead[id] != 1)
					{
						mc_violation("scale:element-lifetime", "element #%d destroyed %d times", id, sc_dead[id]);
						break;
					}
				if (vf_live())
				{
					mc_violation("leak", "%ld blocks live after the scale script", vf_live());
					mc_restart_worker();
				}
				mc_nontrivial(mc_hash_str(scaledesc));
				mc_sample_current();
			}
	in_scale = 0;
}

static void describe(sb_t *o)
{
	if (in_scale)
	{
		sb_puts(o, scaledesc);
		return;
	}
	if (in_sort)
		sb_puts(o, sortdesc);
	else
		bfs_describe(&cb, o);
}
/* ---- the array_list API used directly, with the application's own release callback (json-c's own is
 * json_object_put, which tolerates NULL; an application's need not): every script over a tiny
 * alphabet, compared with a list model; the callback is never handed an empty slot and sees each
 * stored element exactly once ---- */
#include "arraylist.h"
static int dl_released[64], dl_null_calls;
static void dl_free(void *p)
{
	if (!p)
	{
		dl_null_calls++;
		return;
	}
	dl_released[(int)(intptr_t)p]++;
}
static void fam_direct(void)
{
	in_scale = 1;
	/* operations: a = add(next), p = put_idx(len+2, next) (creates a gap), n = put_idx(0, NULL), i = insert_idx(1, next),
	 * d = del_idx(0, 2), D = del_idx(1, len-1), s = shrink(0) */
	static const char ops[] = "apnidDs";
	int nops = (int)strlen(ops), L = mc_tier ? 6 : 5;
	int idx[8] = {0};
	for (int len = 1; len <= L; len++)
	{
		memset(idx, 0, sizeof idx);
		for (;;)
		{
			char script[16];
			for (int k = 0; k < len; k++)
				script[k] = ops[idx[k]];
			script[len] = 0;
			for (int cap = 0; cap < 2; cap++)
			{
				snprintf(scaledesc, sizeof scaledesc, "scale direct array_list script=%s cap=%d", script, cap ? 1 : 32);
				if (!mc_case_begin())
					continue;
				memset(dl_released, 0, sizeof dl_released);
				dl_null_calls = 0;
				struct array_list *al = cap ? array_list_new2(dl_free, 1) : array_list_new(dl_free);
				int model[128], mlen = 0, next = 1, expd[64] = {0}, bad = 0;
				for (int k = 0; k < len && !bad; k++)
				{
					int rc = 0;
					MC_COUNT("calls", 1);
					switch (script[k])
					{
					case 'a': rc = array_list_add(al, (void *)(intptr_t)next); model[mlen++] = next++; break;
					case 'p':
						rc = array_list_put_idx(al, (size_t)mlen + 2, (void *)(intptr_t)next);
						model[mlen] = model[mlen + 1] = 0;
						model[mlen + 2] = next++;
						mlen += 3;
						break;
					case 'n':
						rc = array_list_put_idx(al, 0, NULL);
						if (mlen == 0)
							mlen = 1;
						else if (model[0])
							expd[model[0]]++;
						model[0] = 0;
						break;
					case 'i':
						rc = array_list_insert_idx(al, 1, (void *)(intptr_t)next);
						if (mlen <= 1)
						{
							if (mlen == 0)
								model[mlen++] = 0;
							model[mlen++] = next++;
						}
						else
						{
							memmove(&model[2], &model[1], (size_t)(mlen - 1) * sizeof(int));
							model[1] = next++;
							mlen++;
						}
						break;
					case 'd':
					case 'D':
					{
						size_t from = script[k] == 'd' ? 0 : 1, cnt = script[k] == 'd' ? 2 : (mlen > 1 ? (size_t)mlen - 1 : 1);
						int valid = from < (size_t)mlen && from + cnt <= (size_t)mlen;
						rc = array_list_del_idx(al, from, cnt);
						if ((rc == 0) != valid)
						{
							mc_violation(valid ? "scale:delete-failed" : "out-of-range-delete-accepted", "script %s step %d: del_idx(%zu,%zu) returned %d on length %d", script, k, from, cnt, rc, mlen);
							bad = 1;
							break;
						}
						rc = 0;
						if (valid)
						{
							for (size_t q = from; q < from + cnt; q++)
								if (model[q])
									expd[model[q]]++;
							memmove(&model[from], &model[from + cnt], ((size_t)mlen - from - cnt) * sizeof(int));
							mlen -= (int)cnt;
						}
						break;
					}
					default: rc = array_list_shrink(al, 0); break;
					}
					if (rc != 0)
					{
						mc_violation("scale:put-failed", "script %s step %d (%c) returned %d", script, k, script[k], rc);
						bad = 1;
					}
					if (dl_null_calls)
					{
						mc_violation("release-callback-on-empty-slot", "script %s step %d (%c): the release callback was called %d time(s) with NULL", script, k, script[k], dl_null_calls);
						bad = 1;
					}
					if ((int)array_list_length(al) != mlen)
					{
						mc_violation("scale:length-differs-from-model", "script %s step %d: length %zu, model %d", script, k, array_list_length(al), mlen);
						bad = 1;
					}
					for (int q = 0; q < mlen && !bad; q++)
						if ((int)(intptr_t)array_list_get_idx(al, (size_t)q) != model[q])
						{
							mc_violation("scale:element-differs-from-model", "script %s step %d: element %d is %d, model %d", script, k, q, (int)(intptr_t)array_list_get_idx(al, (size_t)q), model[q]);
							bad = 1;
						}
					for (int e = 1; e < next && !bad; e++)
						if (dl_released[e] != expd[e])
						{
							mc_violation("scale:release-set-differs", "script %s step %d: element %d released %d time(s), model %d", script, k, e, dl_released[e], expd[e]);
							bad = 1;
						}
				}
				for (int q = 0; q < mlen; q++)
					if (model[q])
						expd[model[q]]++;
				array_list_free(al);
				if (!bad)
				{
					if (dl_null_calls)
						mc_violation("release-callback-on-empty-slot", "script %s: array_list_free called the release callback with NULL", script);
					for (int e = 1; e < next; e++)
						if (dl_released[e] != expd[e])
						{
							mc_violation("scale:release-set-differs", "script %s: after array_list_free element %d was released %d time(s), model %d", script, e, dl_released[e], expd[e]);
							break;
						}
				}
				if (vf_live())
				{
					mc_violation("leak", "%ld blocks live", vf_live());
					mc_restart_worker();
				}
				mc_nontrivial(mc_hash_str(scaledesc));
				mc_sample_current();
			}
			int k = 0;
			while (k < len && ++idx[k] == nops)
				idx[k++] = 0;
			if (k == len)
				break;
		}
	}
	in_scale = 0;
}

static void enumerate(void)
{
	struct bfs_stats st;
	bfs_run(&cb, (int)mc_opt_int("depth", mc_tier ? 8 : 6), mc_tier ? 6000000 : 1000000, &st);
	MC_COUNT("states", st.states);
	MC_COUNT("transitions", st.transitions);
	MC_MAX("depth_completed", st.max_depth_done);
	fam_sort();
	fam_scale();
	fam_direct();
}
static int replay(const char *desc)
{
	if (strstr(desc, "scale direct"))
	{
		mc_case_begin_all();
		fam_direct();
	}
	else if (strstr(desc, "scale fill="))
		fam_scale();
	else if (strstr(desc, "sort cap="))
		fam_sort();
	else
		bfs_replay(&cb, desc);
	return (int)mc_violations();
}
int main(int argc, char **argv)
{
	struct mc_harness h = {"c07", enumerate, describe, replay};
	return mc_main(argc, argv, &h);
}
