/* Partition-lattice exploration of json_tokener_parse_ex (C03, C04, C15).
 *
 * For a text t and a flag set, the graph of DESIGN.md 3/C03 is built: a node is
 * (absolute position, exact parser state) reached by calls that all answered
 * "continue"; from every node every longer prefix is fed in one call.  Nodes are
 * merged on an exact key of struct json_tokener, so all 2^(n-1) partitions are
 * covered with O(n^2) calls when the implementation is chunk independent.
 *
 * mode=c03: oracle = per-prefix agreement with ONE call on the same bytes, plus
 *           stream resumption vs a fresh parser.
 * mode=c04: + trichotomy, bounds, reset == new on probe texts, accounting
 *           (meant for the sanitizer build), + arbitrary short byte strings.
 * mode=c15: depth-limit families, oracle = enclosure depth reference.
 */
#include "mc.h"
#include "json.h"
#include <errno.h>
#include <limits.h>
#include <locale.h>
#include <stdlib.h>
#include <string.h>

/* ---------- current case ---------- */
static unsigned char T[1 << 17];
static size_t TL;
static int cur_flags, cur_depth = 32;
static const char *cur_fam = "?";
static char cur_path[256]; /* cut points of the partition being judged */

static void describe(sb_t *o)
{
	sb_printf(o, "fam=%s flags=%d depth=%d cuts=%s text=", cur_fam, cur_flags, cur_depth, cur_path[0] ? cur_path : "-");
	if (TL <= 400)
		sb_hex(o, T, TL);
	else
	{
		sb_hex(o, T, 64);
		sb_printf(o, "...(%zu bytes)", TL);
	}
	sb_puts(o, " ascii=");
	for (size_t i = 0; i < TL && i < 100; i++)
		sb_putc(o, (T[i] >= 0x21 && T[i] < 0x7f) ? (char)T[i] : '.');
}

/* ---------- exact parser state key ---------- */
static sb_t keybuf;
#ifdef MC_NO_INTROSPECTION
/* struct json_tokener no longer has the fields read below: no state merging.  Every partition
 * prefix is its own node (the key is the path), capped per text; verdicts are unaffected. */
static unsigned long nointro_serial;
static uint64_t tok_key(struct json_tokener *tok)
{
	(void)tok;
	return mc_hash(&nointro_serial, sizeof nointro_serial, ++nointro_serial);
}
#else
static uint64_t tok_key(struct json_tokener *tok)
{
	sb_reset(&keybuf);
	sb_printf(&keybuf, "d%d dbl%d sp%d u%x h%x q%d pb%d:", tok->depth, tok->is_double, tok->st_pos, tok->ucs_char,
	          tok->high_surrogate, tok->quote_char, tok->pb->bpos);
	sb_hex(&keybuf, tok->pb->buf, (size_t)tok->pb->bpos);
	for (int i = 0; i <= tok->depth && i < tok->max_depth; i++)
	{
		struct json_tokener_srec *r = &tok->stack[i];
		sb_printf(&keybuf, "|%d,%d,", (int)r->state, (int)r->saved_state);
		if (r->obj_field_name)
		{
			sb_putc(&keybuf, 'F');
			sb_hex(&keybuf, r->obj_field_name, strlen(r->obj_field_name));
		}
		sb_putc(&keybuf, ',');
		vf_dump(r->current, &keybuf, DUMP_SER);
	}
	return mc_hash(keybuf.p, keybuf.n, 7);
}
#endif

/* ---------- outcomes ---------- */
enum
{
	ST_SUCCESS,
	ST_CONTINUE,
	ST_ERROR
};
struct outcome
{
	int status, err;
	size_t end_abs;
	uint64_t valhash; /* typed dump of the value (success) */
	uint64_t key;     /* parser state after the call */
	int obj_null;
};
static sb_t dumpbuf;
static long calls;

static void do_call(struct json_tokener *tok, size_t i, size_t j, struct outcome *o)
{
	char *buf = mc_guard_buf(j - i);
	memcpy(buf, T + i, j - i);
	calls++;
	errno = mc_errno_pre;
	struct json_object *obj = json_tokener_parse_ex(tok, buf, (int)(j - i));
	enum json_tokener_error e = json_tokener_get_error(tok);
	size_t pe = json_tokener_get_parse_end(tok);
	memset(o, 0, sizeof *o);
	o->err = (int)e;
	o->end_abs = i + pe;
	o->obj_null = obj == NULL;
	o->status = e == json_tokener_success ? ST_SUCCESS : e == json_tokener_continue ? ST_CONTINUE : ST_ERROR;
	if (pe > j - i)
		mc_violation("parse-end-beyond-length", "call on [%zu,%zu): parse end %zu exceeds the length given", i, j, pe);
	if (obj && e != json_tokener_success)
		mc_violation("value-with-non-success-status", "call on [%zu,%zu): value returned with status %s", i, j, json_tokener_error_desc(e));
	if (o->status == ST_SUCCESS)
	{
		sb_reset(&dumpbuf);
		vf_dump(obj, &dumpbuf, DUMP_SER);
		o->valhash = mc_hash(dumpbuf.p, dumpbuf.n, 3);
	}
	if (obj)
		json_object_put(obj);
	o->key = tok_key(tok);
}

static int same_outcome(const struct outcome *a, const struct outcome *b)
{
	if (a->status != b->status)
		return 0;
	if (a->status == ST_CONTINUE)
		return 1;
	if (a->err != b->err || a->end_abs != b->end_abs)
		return 0;
	if (a->status == ST_SUCCESS && a->valhash != b->valhash)
		return 0;
	return 1;
}
static const char *oc_str(const struct outcome *o, char *buf, size_t n)
{
	if (o->status == ST_CONTINUE)
		snprintf(buf, n, "continue");
	else if (o->status == ST_SUCCESS)
		snprintf(buf, n, "success(end=%zu,val#%04x)", o->end_abs, (unsigned)(o->valhash & 0xffff));
	else
		snprintf(buf, n, "error(%s,end=%zu)", json_tokener_error_desc((enum json_tokener_error)o->err), o->end_abs);
	return buf;
}

/* ---------- graph ---------- */
#define MAXNODES 4096
struct node
{
	size_t pos;
	uint64_t key;
	int parent; /* -1 = root */
};
static struct node nodes[MAXNODES];
static int nnodes;
static struct outcome ONE[1 << 12]; /* ONE[j]: outcome of one call on t[0..j) */

static struct json_tokener *new_tok(void)
{
	struct json_tokener *tok = json_tokener_new_ex(cur_depth);
	if (!tok)
		abort();
	json_tokener_set_flags(tok, cur_flags);
	return tok;
}
static void bring(struct json_tokener *tok, int n)
{
	if (nodes[n].parent < 0)
		return;
	bring(tok, nodes[n].parent);
	struct outcome o;
	do_call(tok, nodes[nodes[n].parent].pos, nodes[n].pos, &o);
#ifdef MC_NO_INTROSPECTION
	if (o.status != ST_CONTINUE)
#else
	if (o.status != ST_CONTINUE || o.key != nodes[n].key)
#endif
	{
		mc_violation("harness:replay-divergence", "replaying the recorded partition up to %zu gave a different parser state (nondeterminism)", nodes[n].pos);
	}
}
static void path_str(int n, size_t last)
{
	size_t cuts[64];
	int k = 0;
	for (int x = n; x >= 0 && nodes[x].parent >= 0 && k < 64; x = nodes[x].parent)
		cuts[k++] = nodes[x].pos;
	cur_path[0] = 0;
	size_t l = 0;
	while (k-- > 0)
		l += (size_t)snprintf(cur_path + l, sizeof cur_path - l, "%zu,", cuts[k]);
	snprintf(cur_path + l, sizeof cur_path - l, "%zu", last);
}
static int find_node(size_t pos, uint64_t key)
{
	for (int i = 0; i < nnodes; i++)
		if (nodes[i].pos == pos && nodes[i].key == key)
			return i;
	return -1;
}

/* classify a C03 mismatch narrowly, for known-finding signatures */
static const char *c03_signature(int n, size_t j, const struct outcome *got, const struct outcome *want)
{
	size_t i = nodes[n].pos;
	(void)j;
	(void)want;
	if ((cur_flags & JSON_TOKENER_VALIDATE_UTF8) && got->status == ST_ERROR &&
	    got->err == json_tokener_error_parse_utf8_string && i > 0 && i < TL && (T[i] & 0xC0) == 0x80 && T[i - 1] >= 0x80)
	{
		/* every cut of this partition lies inside a multi-byte character? at least the last one does */
		return "utf8-validate-cut-inside-multibyte-char";
	}
	return "chunking-changes-outcome";
}

/* probes for reset == new (C04c): each reads some persistent scanner field */
static const char *probes[] = {"\"\\u00e9\"", "\"\\udc00\"", "1.5e3", "true", "'q'", "[1,[2,{\"a\":[]}]]", "{\"k\":\"v\"}", "/*c*/1", "-7", "null", "[", "\"x",
                               "{\"\\u0041\":1}", "{\"\\udc00k\":[1.5]}", "7",
                               /* the quick tier stops here */
                               "\"A\"", "\"\\ud83d\\ude00\"", "12", "false", "NaN", "-Infinity", "\"\\n\"", "{\"a\"", "1e", "tru", "-", "\"\\u12", "\"\\ud83d",
                               "{\"a\":1,", "[[[[", " ", "]", "\"\\ud83d\\u0041\""};
#define NPROBES_ALL (int)(sizeof probes / sizeof probes[0])
#define NPROBES (mc_tier ? NPROBES_ALL : 15)
static struct outcome probe_fresh[64];
static uint64_t probe_fresh_dumps[64];
static int probe_flags_done = -1, probe_depth_done = -1;

static void probe_call(struct json_tokener *tok, const char *p, struct outcome *o)
{
	/* probes are fed NUL-terminated (length includes the NUL) through a side buffer, not T */
	size_t n = strlen(p) + 1;
	char *buf = mc_guard_buf(n);
	memcpy(buf, p, n);
	calls++;
	errno = mc_errno_pre;
	struct json_object *obj = json_tokener_parse_ex(tok, buf, (int)n);
	enum json_tokener_error e = json_tokener_get_error(tok);
	memset(o, 0, sizeof *o);
	o->err = (int)e;
	o->end_abs = json_tokener_get_parse_end(tok);
	o->status = e == json_tokener_success ? ST_SUCCESS : e == json_tokener_continue ? ST_CONTINUE : ST_ERROR;
	if (o->status == ST_SUCCESS)
	{
		sb_reset(&dumpbuf);
		vf_dump(obj, &dumpbuf, DUMP_SER);
		o->valhash = mc_hash(dumpbuf.p, dumpbuf.n, 3);
	}
	if (obj)
		json_object_put(obj);
}
static void ensure_probe_reference(void)
{
	if (probe_flags_done == cur_flags && probe_depth_done == cur_depth)
		return;
	for (int k = 0; k < NPROBES; k++)
	{
		struct json_tokener *tok = new_tok();
		probe_call(tok, probes[k], &probe_fresh[k]);
		json_tokener_free(tok);
	}
	probe_flags_done = cur_flags;
	probe_depth_done = cur_depth;
}
#define RSBITS 22
static uint64_t *seen_reset_states; /* global per worker: reset behaviour depends on the parser state only */
static long n_seen_reset_global;
static int n_seen_reset;
/* tok is in some state after an outcome; reset it and compare every probe with a fresh parser */
static void check_reset_equals_new(int n, size_t i, size_t j, uint64_t statekey)
{
	if (!seen_reset_states)
		seen_reset_states = calloc((size_t)1 << RSBITS, sizeof(uint64_t));
	statekey = mc_hash(&statekey, sizeof statekey, (uint64_t)cur_flags * 1000003u + (uint64_t)cur_depth);
	if (!statekey)
		statekey = 1;
	if (n_seen_reset_global < ((long)3 << (RSBITS - 2)))
	{
		uint64_t h = statekey & (((uint64_t)1 << RSBITS) - 1);
		while (seen_reset_states[h])
		{
			if (seen_reset_states[h] == statekey)
				return;
			h = (h + 1) & (((uint64_t)1 << RSBITS) - 1);
		}
		seen_reset_states[h] = statekey;
		n_seen_reset_global++;
	}
	ensure_probe_reference();
	MC_COUNT("reset_states", 1);
	for (int k = 0; k < NPROBES; k++)
	{
		struct json_tokener *tok = new_tok();
		bring(tok, n);
		struct outcome o;
		if (j > i)
			do_call(tok, i, j, &o);
		json_tokener_reset(tok);
		probe_call(tok, probes[k], &o);
		if (!same_outcome(&o, &probe_fresh[k]))
		{
			char a[96], b[96];
			path_str(n, j);
			const char *sig = "reset-differs-from-new";
			mc_violation(sig, "after the calls cut at %s and json_tokener_reset, probe %s gives %s; a new parser gives %s", cur_path,
			             probes[k], oc_str(&o, a, sizeof a), oc_str(&probe_fresh[k], b, sizeof b));
		}
		/* a second probe after another reset: parse/reset/parse sequences */
		if (!mc_tier && (k & 3))
		{
			json_tokener_free(tok);
			MC_COUNT("probes", 1);
			continue;
		}
		json_tokener_reset(tok);
		int k2 = (k * 7 + 3) % NPROBES;
		probe_call(tok, probes[k2], &o);
		if (!same_outcome(&o, &probe_fresh[k2]))
		{
			char a[96], b[96];
			path_str(n, j);
			mc_violation("reset-differs-from-new", "after cuts %s, reset, probe %s, reset: probe %s gives %s; a new parser gives %s", cur_path,
			             probes[k], probes[k2], oc_str(&o, a, sizeof a), oc_str(&probe_fresh[k2], b, sizeof b));
		}
		json_tokener_free(tok);
		MC_COUNT("probes", 2);
	}
}

/* a parser that has just returned a value must be ready for the next one: without any reset the
 * probes must behave as on a new parser (documented streaming use of json_tokener_parse_ex) */
static uint64_t *seen_success_states;
static long n_seen_success;
static void check_success_leaves_ready(int n, size_t i, size_t j, uint64_t statekey)
{
	if (!seen_success_states)
		seen_success_states = calloc((size_t)1 << 18, sizeof(uint64_t));
	statekey = mc_hash(&statekey, sizeof statekey, (uint64_t)cur_flags * 7919u + (uint64_t)cur_depth + 99);
	if (!statekey)
		statekey = 1;
	if (n_seen_success < ((long)3 << 16))
	{
		uint64_t h = statekey & (((uint64_t)1 << 18) - 1);
		while (seen_success_states[h])
		{
			if (seen_success_states[h] == statekey)
				return;
			h = (h + 1) & (((uint64_t)1 << 18) - 1);
		}
		seen_success_states[h] = statekey;
		n_seen_success++;
	}
	ensure_probe_reference();
	MC_COUNT("success_states", 1);
	for (int k = 0; k < NPROBES; k++)
	{
		struct json_tokener *tok = new_tok();
		bring(tok, n);
		struct outcome o;
		do_call(tok, i, j, &o);
		probe_call(tok, probes[k], &o);
		if (!same_outcome(&o, &probe_fresh[k]))
		{
			char a[96], b[96];
			path_str(n, j);
			mc_violation("stream-resume-differs-from-fresh", "after the calls cut at %s returned a value, the next call on %s gives %s; a new parser gives %s", cur_path, probes[k],
			             oc_str(&o, a, sizeof a), oc_str(&probe_fresh[k], b, sizeof b));
		}
		json_tokener_free(tok);
		MC_COUNT("probes", 1);
	}
}

static int opt_reset_probes, opt_streams = 1, opt_mode; /* mode 0 c03, 1 c04, 2 c15 */
static uint64_t seen_stream_states[256];
static size_t seen_stream_end[256];
static int n_seen_stream;

static void check_stream(int n, size_t i, size_t j, const struct outcome *succ)
{
	size_t e = succ->end_abs;
	if (e >= TL)
		return;
	for (int k = 0; k < n_seen_stream; k++)
		if (seen_stream_states[k] == succ->key && seen_stream_end[k] == e)
			return;
	if (n_seen_stream >= 256)
		return;
	seen_stream_states[n_seen_stream] = succ->key;
	seen_stream_end[n_seen_stream++] = e;
	MC_COUNT("stream_resumptions", 1);
	for (size_t k = e + 1; k <= TL; k++)
	{
		struct json_tokener *a = new_tok(), *b = new_tok();
		bring(a, n);
		struct outcome o, a1, b1, a2, b2;
		do_call(a, i, j, &o);
		do_call(a, e, k, &a1);
		do_call(b, e, k, &b1);
		int bad = !same_outcome(&a1, &b1);
		if (!bad && a1.status == ST_CONTINUE && k < TL)
		{
			do_call(a, k, TL, &a2);
			do_call(b, k, TL, &b2);
			bad = !same_outcome(&a2, &b2) ? 2 : 0;
		}
		if (bad)
		{
			char x[96], y[96];
			path_str(n, j);
			mc_violation("stream-resume-differs-from-fresh", "after success at %zu (cuts %s), resuming on [%zu,%zu)%s gives %s; a fresh parser gives %s", e,
			             cur_path, e, k, bad == 2 ? " then the rest" : "", oc_str(bad == 2 ? &a2 : &a1, x, sizeof x),
			             oc_str(bad == 2 ? &b2 : &b1, y, sizeof y));
		}
		json_tokener_free(a);
		json_tokener_free(b);
	}
}

static void check_trichotomy(const struct outcome *o, size_t i, size_t j)
{
	if (o->status == ST_SUCCESS && o->obj_null)
	{
		/* a NULL value with success must come from a text that spells null */
		int has = 0;
		for (size_t k = 0; k + 3 < TL + 0 && k + 4 <= j; k++)
			if ((T[k] | 0x20) == 'n' && (T[k + 1] | 0x20) == 'u' && (T[k + 2] | 0x20) == 'l' && (T[k + 3] | 0x20) == 'l')
				has = 1;
		if (!has)
			mc_violation("success-without-value", "call on [%zu,%zu): status success, NULL value, but the text contains no null literal", i, j);
	}
}

/* explores the whole partition lattice of T[0..TL) */
static void explore_text_inner(void);
static void explore_text(void)
{
	if (!mc_case_begin())
		return;
	explore_text_inner();
}
static void explore_text_inner(void)
{
	long calls0 = calls;
	long v0 = mc_violations();
	nnodes = 0;
	n_seen_reset = 0;
	n_seen_stream = 0;
	cur_path[0] = 0;
	struct json_tokener *t0 = new_tok();
	nodes[0].pos = 0;
	nodes[0].key = tok_key(t0);
	nodes[0].parent = -1;
	nnodes = 1;
	json_tokener_free(t0);
	if (TL >= (1 << 12))
		abort();
	int truncated = 0;
	uint64_t oh = 0;
	for (int n = 0; n < nnodes; n++)
	{
		size_t i = nodes[n].pos;
		if (opt_mode <= 1)
		{
			/* a call with length 0 in this state: asks for more input, reports end 0, changes nothing */
			struct json_tokener *tok = new_tok();
			bring(tok, n);
			struct outcome z;
			do_call(tok, i, i, &z);
			if (z.status != ST_CONTINUE)
			{
				char a[96];
				path_str(n, i);
				mc_violation("empty-chunk-not-continue", "after the calls cut at %s a call with length 0 gives %s", cur_path, oc_str(&z, a, sizeof a));
			}
			else if (z.key != nodes[n].key)
			{
				path_str(n, i);
				mc_violation("empty-chunk-changes-state", "after the calls cut at %s a call with length 0 changed the parser's state", cur_path);
			}
			json_tokener_free(tok);
		}
		for (size_t j = i + 1; j <= TL; j++)
		{
			struct json_tokener *tok = new_tok();
			bring(tok, n);
			struct outcome o;
			do_call(tok, i, j, &o);
			MC_COUNT("edges", 1);
			if (n == 0)
			{
				ONE[j] = o;
				oh = mc_hash(&o.status, sizeof o.status, oh ^ o.valhash ^ (uint64_t)o.err ^ o.end_abs);
			}
			else if (!same_outcome(&o, &ONE[j]))
			{
				char a[96], b[96];
				path_str(n, j);
				mc_violation(c03_signature(n, j, &o, &ONE[j]), "partition cut at %s: last call gives %s; one call on the same %zu bytes gives %s", cur_path,
				             oc_str(&o, a, sizeof a), j, oc_str(&ONE[j], b, sizeof b));
			}
			if (opt_mode == 1)
				check_trichotomy(&o, i, j);
			if (o.status == ST_CONTINUE)
			{
				if (find_node(j, o.key) < 0)
				{
#ifdef MC_NO_INTROSPECTION
					if (nnodes < 96)
#else
					if (nnodes < MAXNODES && nnodes < (int)(8 * TL + 8))
#endif
					{
						nodes[nnodes].pos = j;
						nodes[nnodes].key = o.key;
						nodes[nnodes].parent = n;
						nnodes++;
					}
					else
						truncated = 1;
				}
			}
			else if (o.status == ST_SUCCESS && opt_streams)
			{
				json_tokener_free(tok);
				tok = NULL;
				check_stream(n, i, j, &o);
				if (opt_reset_probes)
					check_success_leaves_ready(n, i, j, o.key);
			}
			if (tok)
				json_tokener_free(tok);
			if (opt_reset_probes)
				check_reset_equals_new(n, i, j, o.key ^ ((uint64_t)o.status << 60) ^ ((uint64_t)o.err << 52));
		}
	}
	if (opt_mode == 1)
	{
		/* the length argument itself: -1 means "up to and including the NUL"; anything below is refused
		 * with the size error before a single byte is read */
		size_t sl = 0;
		while (sl < TL && T[sl])
			sl++;
		char *buf = mc_guard_buf(sl + 1);
		memcpy(buf, T, sl);
		buf[sl] = 0;
		struct outcome a, b;
		for (int which = 0; which < 2; which++)
		{
			struct json_tokener *tok = new_tok();
			calls++;
			struct json_object *obj = json_tokener_parse_ex(tok, buf, which ? -1 : (int)sl + 1);
			struct outcome *o = which ? &b : &a;
			memset(o, 0, sizeof *o);
			o->err = (int)json_tokener_get_error(tok);
			o->end_abs = json_tokener_get_parse_end(tok);
			o->status = o->err == json_tokener_success ? ST_SUCCESS : o->err == json_tokener_continue ? ST_CONTINUE : ST_ERROR;
			if (o->status == ST_SUCCESS)
			{
				sb_reset(&dumpbuf);
				vf_dump(obj, &dumpbuf, DUMP_SER);
				o->valhash = mc_hash(dumpbuf.p, dumpbuf.n, 3);
			}
			if (obj)
				json_object_put(obj);
			json_tokener_free(tok);
		}
		if (!same_outcome(&a, &b))
		{
			char x[96], y[96];
			mc_violation("length-minus-one-differs", "length -1 gives %s; the explicit length %zu (with the NUL) gives %s", oc_str(&b, x, sizeof x), sl + 1, oc_str(&a, y, sizeof y));
		}
		/* the convenience entry points on the same C string: same status, a value exactly on success */
		if (cur_flags == 0 && cur_depth == JSON_TOKENER_DEFAULT_DEPTH)
		{
			enum json_tokener_error ve = (enum json_tokener_error)77;
			calls += 2;
			struct json_object *o1 = json_tokener_parse_verbose(buf, &ve);
			if ((int)ve != b.err)
				mc_violation("parse-verbose-status-differs", "json_tokener_parse_verbose stored status %d (%s); parse_ex with length -1 ends with %s", (int)ve,
				             json_tokener_error_desc(ve), json_tokener_error_desc((enum json_tokener_error)b.err));
			if (o1 && b.status != ST_SUCCESS)
				mc_violation("value-with-non-success-status", "json_tokener_parse_verbose returned a value although the status is %s", json_tokener_error_desc((enum json_tokener_error)b.err));
			if (b.status == ST_SUCCESS)
			{
				sb_reset(&dumpbuf);
				vf_dump(o1, &dumpbuf, DUMP_SER);
				if (mc_hash(dumpbuf.p, dumpbuf.n, 3) != b.valhash)
					mc_violation("entry-points-differ", "json_tokener_parse_verbose returns another value than parse_ex with length -1");
			}
			if (o1)
				json_object_put(o1);
			struct json_object *o2 = json_tokener_parse(buf);
			if (o2 && b.status != ST_SUCCESS)
				mc_violation("value-with-non-success-status", "json_tokener_parse returned a value for a text that parse_ex ends with %s", json_tokener_error_desc((enum json_tokener_error)b.err));
			if (b.status == ST_SUCCESS)
			{
				sb_reset(&dumpbuf);
				vf_dump(o2, &dumpbuf, DUMP_SER);
				if (mc_hash(dumpbuf.p, dumpbuf.n, 3) != b.valhash)
					mc_violation("entry-points-differ", "json_tokener_parse returns another value than parse_ex with length -1");
			}
			if (o2)
				json_object_put(o2);
		}
		static const int bad[] = {-2, -3, -65536, INT_MIN};
		char *edge = mc_guard_buf(1) + 1; /* first byte of the guard page: any read faults */
		for (unsigned k = 0; k < 4; k++)
		{
			struct json_tokener *tok = new_tok();
			calls++;
			struct json_object *obj = json_tokener_parse_ex(tok, edge, bad[k]);
			if (obj || json_tokener_get_error(tok) != json_tokener_error_size)
				mc_violation("negative-length-not-refused", "length %d: returned %s with status %s", bad[k], obj ? "a value" : "NULL", json_tokener_error_desc(json_tokener_get_error(tok)));
			if (obj)
				json_object_put(obj);
			json_tokener_free(tok);
		}
	}
	if (truncated)
	{
		MC_COUNT("texts_with_node_cap", 1);
		mc_not_exhaustive("node cap reached on some text (parser states differ between partitions)");
	}
	MC_COUNT("nodes", nnodes);
	MC_MAX("nodes_per_text", nnodes);
	MC_COUNT("calls", calls - calls0);
	if ((size_t)nnodes > TL + 1)
		MC_COUNT("texts_with_extra_nodes", 1);
	if (vf_live() != 0)
	{
		cur_path[0] = 0;
		mc_violation("leak", "%ld blocks still allocated after freeing every parser and value", vf_live());
		mc_restart_worker(); /* accounting is now off for every later case */
	}
	if (vf_locale_live() != 0 || uselocale((locale_t)0) != LC_GLOBAL_LOCALE)
	{
		cur_path[0] = 0;
		mc_violation("locale-object-leak", "%ld locale objects not released after freeing every parser; the thread's locale is %s", vf_locale_live(),
		             uselocale((locale_t)0) == LC_GLOBAL_LOCALE ? "restored" : "still replaced");
		mc_restart_worker();
	}
	mc_outcome(oh);
	if (TL > 2 && ONE[TL].status != ST_ERROR)
		mc_nontrivial(mc_hash(T, TL, (uint64_t)cur_flags));
	else if (TL > 2 && ONE[TL].end_abs > 1)
		mc_nontrivial(mc_hash(T, TL, (uint64_t)cur_flags));
	(void)v0;
	cur_path[0] = 0;
	mc_sample_current();
}

/* returns 1 when one call on the whole text ends in a hard error before its last byte:
 * no extension of the text can change any partition's behaviour on the shared prefix */
static int hard_error_prefix(void)
{
	struct json_tokener *tok = new_tok();
	struct outcome o;
	do_call(tok, 0, TL, &o);
	json_tokener_free(tok);
	return o.status == ST_ERROR;
}

static const int flagsets[8] = {0, JSON_TOKENER_STRICT, JSON_TOKENER_ALLOW_TRAILING_CHARS, JSON_TOKENER_STRICT | JSON_TOKENER_ALLOW_TRAILING_CHARS,
                                JSON_TOKENER_VALIDATE_UTF8, JSON_TOKENER_VALIDATE_UTF8 | JSON_TOKENER_STRICT,
                                JSON_TOKENER_VALIDATE_UTF8 | JSON_TOKENER_ALLOW_TRAILING_CHARS, 7};
static int nflagsets = 8;

static void all_flags_both_ends(void)
{
	/* the text as is, and with a terminating NUL as its last byte */
	for (int f = 0; f < nflagsets; f++)
	{
		cur_flags = flagsets[f];
		explore_text();
		T[TL++] = 0;
		explore_text();
		TL--;
	}
}

/* ---------- families ---------- */
static const char *tokens22[] = {"[", "]", "{", "}", ",", ":", "\"a\"", "\"\\u00e9\"", "\"\xc3\xa9\"", "\"\\ud83d\\ude00\"", "\"\\ud83d\"", "'q'",
                                 "1", "-1.5e+3", "0", "true", "nUll", "NaN", "-Infinity", "/*c*/", "//c\n", " "};
#define NTOK 22
static void fam_tokens_rec(int depth, int maxdepth, size_t len)
{
	for (int k = 0; k < NTOK; k++)
	{
		if (mc_deadline())
			return;
		size_t l = strlen(tokens22[k]);
		memcpy(T + len, tokens22[k], l);
		TL = len + l;
		cur_flags = 0;
		all_flags_both_ends();
		if (depth + 1 < maxdepth)
		{
			/* extend unless every flag set hits a hard error (absorbing for all partitions) */
			int extend = 0;
			for (int f = 0; f < nflagsets && !extend; f++)
			{
				cur_flags = flagsets[f];
				TL = len + l;
				if (!hard_error_prefix())
					extend = 1;
			}
			if (extend)
				fam_tokens_rec(depth + 1, maxdepth, len + l);
		}
	}
}
static void fam_tokens(void)
{
	cur_fam = "F1-tokens";
	/* under the sanitizers with the reset probes (C04) the family bound stays at the quick size */
	fam_tokens_rec(0, (mc_tier && opt_mode != 1) ? 4 : 3, 0);
}

static void fam_bytes(const char *name, const char *prefix, const char *alphabet, int maxlen, const char *suffix)
{
	cur_fam = name;
	size_t pl = strlen(prefix), al = strlen(alphabet), sl = strlen(suffix);
	int idx[16];
	for (int len = 1; len <= maxlen; len++)
	{
		memset(idx, 0, sizeof idx);
		for (;;)
		{
			if (mc_deadline())
				return;
			memcpy(T, prefix, pl);
			for (int k = 0; k < len; k++)
				T[pl + (size_t)k] = (unsigned char)alphabet[idx[k]];
			memcpy(T + pl + (size_t)len, suffix, sl);
			TL = pl + (size_t)len + sl;
			all_flags_both_ends();
			int k = 0;
			while (k < len && ++idx[k] == (int)al)
				idx[k++] = 0;
			if (k == len)
				break;
		}
	}
}
static void fam_scanners(void)
{
	int d = (mc_tier && opt_mode != 1) ? 0 : 1;
	fam_bytes("F2-number-top", "", "-+01.eE", 6 - d, "");
	fam_bytes("F2-number-in-array", "[", "-+01.eE", 5 - d, "]");
	fam_bytes("F2-escape", "\"", "\"\\ud80can/", 7 - d - d, "");
	fam_bytes("F2-literal", "", "trueTnlNaIify-", 5 - d, "");
	fam_bytes("F2-comment", "", "/*\na1 ", 6 - d, "");
	/* the same scanners entered below the top level, after a complete value */
	fam_bytes("F2-comment-in-array", "[1", "/*\n,2 ", 5 - d, "");
	fam_bytes("F2-comment-in-object", "{\"a\":[]", "/*\n,} ", 5 - d, "");
	fam_bytes("F2-literal-in-array", "[", "trueNnl,", 5 - d - d, "]");
	{
		/* UTF-8 lead/continuation bytes inside a string */
		cur_fam = "F2-utf8";
		static const unsigned char bs[] = {0x41, 0x7f, 0x80, 0xbb, 0xbf, 0xc2, 0xdf, 0xe0, 0xef, 0xf0, 0xf4, 0xf8, 0xff, '"', '\\'}; /* includes EF BB BF (U+FEFF) */
		int nb = sizeof bs, maxlen = 4 - d;
		int idx[8];
		for (int len = 1; len <= maxlen; len++)
		{
			memset(idx, 0, sizeof idx);
			for (;;)
			{
				if (mc_deadline())
					return;
				T[0] = '"';
				for (int k = 0; k < len; k++)
					T[1 + k] = bs[idx[k]];
				T[1 + len] = '"';
				TL = (size_t)len + 2;
				all_flags_both_ends();
				int k = 0;
				while (k < len && ++idx[k] == nb)
					idx[k++] = 0;
				if (k == len)
					break;
			}
		}
	}
}
static sb_t txt;
static void fam_docs(void)
{
	cur_fam = "F3-streams";
	static const char *streams[] = {"1 2", "[]{}", "\"a\"\"b\"", "truefalse", "12", "1/**/2", "{\"a\":1}[2]", "null null", "1.5 2.5", "\"\\ud83d\" \"\\ude00\"",
	                                "[1] //c\n[2]", "-1-2", "1e5 6", "nullnull", "[\"\xc3\xa9\"]\"\xc3\xa9\"", "{} x", "[1,2", "tru e",
	                                /* multi-byte characters, among them U+FEFF (a byte order mark when it comes first) */
	                                "[\"x\xef\xbb\xbfy\",{\"\xef\xbb\xbf\":\"\xe2\x80\xa8\xf0\x9f\x98\x80\"}]", "\xef\xbb\xbf[1]", "[1,\xef\xbb\xbf" "2]",
	                                /* tokens longer than the scanner's 32/64-byte buffer steps */
	                                "\"abcdefghijklmnopqrstuvwxyz01234\\u00e9abcdefghijklmnopqrstuvwxyz0123456\\ud83d\\ude00z\"",
	                                "{\"abcdefghijklmnopqrstuvwxyz0123456789\":[\"abcdefghijklmnopqrstuvwxyz012345\\n\"]}",
	                                "[123456789012345678901234567890123456.5e-3,-9223372036854775808]",
	                                "/* a comment that is longer than thirty-two bytes, really */ 1 // and another one\n",
	                                /* array growth (33rd element) and table growth (12th member) in the middle of a chunked parse */
	                                "[0,1,2,3,4,5,6,7,8,9,0,1,2,3,4,5,6,7,8,9,0,1,2,3,4,5,6,7,8,9,0,1,2,3,4]",
	                                "{\"a\":1,\"b\":2,\"c\":3,\"d\":4,\"e\":5,\"f\":6,\"g\":7,\"h\":8,\"i\":9,\"j\":0,\"k\":1,\"l\":2,\"a\":3}",
	                                "\"\xe2\x82\xac\xe2\x82\xac\xe2\x82\xac\xe2\x82\xac\xe2\x82\xac\xe2\x82\xac\xe2\x82\xac\xe2\x82\xac\xe2\x82\xac\xe2\x82\xac\xe2\x82\xac\""};
	for (unsigned i = 0; i < sizeof streams / sizeof streams[0]; i++)
	{
		TL = strlen(streams[i]);
		memcpy(T, streams[i], TL);
		all_flags_both_ends();
	}
	/* a number token longer than 256 bytes: every split, and the one-call parse, must agree */
	{
		cur_fam = "F3-long-number";
		size_t k = 0;
		T[k++] = '[';
		T[k++] = '1';
		for (int i = 0; i < 262; i++)
			T[k++] = '0';
		memcpy(T + k, ".25e-250]", 9);
		k += 9;
		TL = k;
		cur_flags = 0;
		explore_text();
		cur_flags = JSON_TOKENER_STRICT;
		T[TL++] = 0;
		explore_text();
		TL--;
	}
	/* parsers created with a small nesting limit: containers that open on, just below and beyond the last level */
	{
		cur_fam = "F3-depth-limited";
		static const char *dd[] = {"[[ ]]", "[[1]]", "[ ]", "{ }", "[1]", "{\"a\":[ 1]}", "[{ }]", "[[[]]]", "[[],[ ]]", "{\"a\":{\"b\": {}}}", "[ [\n] ]", "[1,[2,[3]]]", "[]", "[[]]"};
		for (unsigned i = 0; i < sizeof dd / sizeof dd[0]; i++)
			for (int D = 1; D <= 3; D++)
			{
				TL = strlen(dd[i]);
				memcpy(T, dd[i], TL);
				cur_depth = D;
				all_flags_both_ends();
			}
		cur_depth = 32;
	}
	cur_fam = "F3-T13";
	V *leaves[8];
	const char *keys[] = {"a", "b"};
	struct vfam g = {.width = (mc_tier && opt_mode != 1) ? 3 : 2, .leaves = leaves, .nleaves = 8, .keys = keys, .nkeys = 2, .dup_keys = 1};
	vfam_init(&g, 1);
	for (uint64_t i = 0; i < g.count[1]; i++)
	{
		if (mc_deadline())
			return;
		va_reset();
		leaves[0] = v_null();
		leaves[1] = v_bool(1);
		leaves[2] = v_bool(0);
		leaves[3] = v_int(0, 0);
		leaves[4] = v_int(1, 12);
		leaves[5] = v_dbls(1.5, "1.5");
		leaves[6] = v_strz("");
		leaves[7] = v_strz("a\n");
		V *v = vfam_get(&g, 1, i);
		sb_reset(&txt);
		v_print(v, &txt);
		TL = txt.n;
		memcpy(T, txt.p, TL);
		all_flags_both_ends();
	}
}

/* C04 (a): arbitrary bytes */
static void fam_arbitrary(void)
{
	cur_fam = "arbitrary-bytes";
	static const int depths[] = {1, 2, 32};
	int maxlen = mc_tier ? 3 : 2;
	for (int len = 1; len <= maxlen; len++)
	{
		uint64_t total = 1;
		for (int k = 0; k < len; k++)
			total *= 256;
		for (uint64_t x = 0; x < total; x++)
		{
			if (mc_deadline())
				return;
			if (len == 3)
			{
				/* third byte from a reduced alphabet of 24 class representatives */
				static const unsigned char rep[] = {0, 1, 0x1f, ' ', '"', '\'', '\\', '/', '*', ',', ':', '[', ']', '{', '}', '-', '0', '9', 'e', 'n', 't', 'u', 0x80, 0xc3, 0xe2, 0xf0, 0xff, '\n', 'I', 'N', '.', '+'};
				if ((x >> 16) >= sizeof rep)
					break;
				T[2] = rep[x >> 16];
				T[0] = (unsigned char)(x & 0xff);
				T[1] = (unsigned char)((x >> 8) & 0xff);
			}
			else
				for (int k = 0; k < len; k++)
					T[k] = (unsigned char)((x >> (8 * k)) & 0xff);
			TL = (size_t)len;
			for (int f = 0; f < nflagsets; f++)
				for (unsigned dd = 0; dd < 3; dd++)
				{
					if (len == 3 && dd != 2 && (f & 1))
						continue;
					cur_flags = flagsets[f];
					cur_depth = depths[dd];
					explore_text();
				}
			cur_depth = 32;
		}
	}
}

/* ---------- C15: depth limit ---------- */
static void c15_oneshot_and_graph(int D, int graph)
{
	/* reference */
	if (!mc_case_begin())
		return;
	va_reset();
	struct rr_opts ro = {.max_depth = D};
	struct rr_result rr;
	rr_parse(T, TL, &ro, &rr);
	cur_depth = D;
	cur_flags = 0;
	cur_path[0] = 0;
	for (int strict = 0; strict < 2; strict++)
	{
		cur_flags = strict ? JSON_TOKENER_STRICT : 0;
		struct json_tokener *tok = json_tokener_new_ex(D);
		if (!tok)
		{
			mc_violation("new-ex-refused-valid-depth", "json_tokener_new_ex(%d) returned NULL", D);
			continue;
		}
		json_tokener_set_flags(tok, cur_flags);
		vf_peak_reset();
		long live0 = vf_live();
		T[TL] = 0;
		struct outcome o;
		TL++;
		do_call(tok, 0, TL, &o);
		TL--;
		long peak = vf_peak_live() - live0;
		MC_COUNT("calls", 1);
		if (rr.status == RR_OK)
		{
			if (o.status != ST_SUCCESS)
				mc_violation("within-limit-rejected", "max enclosure %d <= D-1=%d but the parse fails: %s at %zu", rr.max_enclosure, D - 1,
				             json_tokener_error_desc((enum json_tokener_error)o.err), o.end_abs);
		}
		else if (rr.status == RR_DEPTH)
		{
			if (o.status == ST_SUCCESS)
				mc_violation("beyond-limit-accepted", "a value enclosed by more than %d containers was accepted", D - 1);
			else if (o.err != json_tokener_error_depth)
				mc_violation("beyond-limit-wrong-error", "expected 'nesting too deep', got %s", json_tokener_error_desc((enum json_tokener_error)o.err));
			else if (o.end_abs != rr.err_pos)
				mc_violation("depth-error-position", "nesting error reported at %zu, the first too-deep value starts at %zu", o.end_abs, rr.err_pos);
			/* memory: nodes alive during the parse bounded by the limit (each level: node + table/array + key) */
			if (peak > 8L * D + 8)
				mc_violation("memory-beyond-limit", "peak of %ld live blocks during a parse with depth limit %d", peak, D);
			MC_MAX("peak_blocks", peak);
		}
		json_tokener_free(tok);
		mc_outcome(mc_hash(&o.err, sizeof o.err, (uint64_t)D * 131 + o.end_abs));
	}
	if (vf_live())
	{
		mc_violation("leak", "%ld blocks live", vf_live());
		mc_restart_worker();
	}
	if (rr.status == RR_DEPTH || rr.max_enclosure == D - 1)
		mc_nontrivial(mc_hash(T, TL, (uint64_t)D));
	mc_sample_current();
	if (graph && TL <= 48)
	{
		/* chunked: every partition must agree with the one-shot result (C03 oracle) under this depth */
		cur_flags = 0;
		MC_COUNT("lattices", 2);
		explore_text_inner();
		T[TL++] = 0;
		explore_text_inner();
		TL--;
	}
	cur_depth = 32;
}
static void fam_depth(void)
{
	cur_fam = "depth";
	int Dmax = mc_tier ? 34 : 8;
	opt_streams = 0;
	static const char *inner[] = {"1", "\"\"", "[]", "{}", ""};
	for (int D = 1; D <= Dmax; D++)
		for (int k = 0; k <= D + 2; k++)
		{
			uint64_t shapes = k <= 10 ? ((uint64_t)1 << k) : 3;
			for (uint64_t s = 0; s < shapes; s++)
				for (int in = 0; in < 5; in++)
					for (int sib = 0; sib < 2; sib++)
					{
						if (mc_deadline())
							return;
						if (in == 4 && k == 0)
							continue;
						sb_reset(&txt);
						char closers[64];
						for (int i = 0; i < k; i++)
						{
							int arr;
							if (k <= 10)
								arr = (int)((s >> i) & 1);
							else
								arr = s == 0 ? 1 : s == 1 ? 0 : (i & 1);
							int last_empty = (i == k - 1) && in == 4;
							if (arr)
								sb_puts(&txt, (sib && i == 0 && !last_empty) ? "[1," : "[");
							else
								sb_puts(&txt, last_empty ? "{" : (sib && i == 0) ? "{\"p\":1,\"k\":" : "{\"k\":");
							closers[i] = arr ? ']' : '}';
						}
						if (in != 4)
							sb_puts(&txt, inner[in]);
						for (int i = k - 1; i >= 0; i--)
							sb_putc(&txt, closers[i]);
						TL = txt.n;
						memcpy(T, txt.p, TL);
						c15_oneshot_and_graph(D, D <= (mc_tier ? 8 : 4) && k <= D + 1);
					}
		}
	/* large limits: the limit asked for is the limit applied, whatever its size */
	cur_fam = "depth-large";
	{
		static const int bigD[] = {100, 1000, 4095, 4096, 4097, 5000, 8192, 10000};
		for (unsigned di = 0; di < sizeof bigD / sizeof bigD[0]; di++)
			for (int dk = -2; dk <= 1; dk++)
				for (int pat = 0; pat < 3; pat++)
				{
					if (mc_deadline())
						return;
					int D = bigD[di], k = D + dk;
					sb_reset(&txt);
					for (int i = 0; i < k; i++)
						sb_puts(&txt, (pat == 0 || (pat == 2 && (i & 1))) ? "[" : "{\"k\":");
					sb_puts(&txt, "1");
					for (int i = k - 1; i >= 0; i--)
						sb_putc(&txt, (pat == 0 || (pat == 2 && (i & 1))) ? ']' : '}');
					TL = txt.n;
					memcpy(T, txt.p, TL);
					c15_oneshot_and_graph(D, 0);
				}
	}
	/* refused depth values */
	cur_fam = "depth-refused";
	static const int bad[] = {0, -1, -2147483647 - 1};
	for (int i = 0; i < 3; i++)
	{
		if (!mc_case_begin())
			continue;
		struct json_tokener *tok = json_tokener_new_ex(bad[i]);
		if (tok)
		{
			TL = 0;
			cur_depth = bad[i];
			mc_violation("new-ex-accepts-depth-below-1", "json_tokener_new_ex(%d) returned a parser", bad[i]);
			json_tokener_free(tok);
		}
	}
	/* hostile depth: far beyond the limit, unclosed */
	cur_fam = "depth-hostile";
	for (int pat = 0; pat < 3; pat++)
		for (int D = 1; D <= 64; D = D < 4 ? D + 1 : D * 2)
		{
			if (!mc_case_begin())
				continue;
			sb_reset(&txt);
			int reps = 20000;
			for (int i = 0; i < reps; i++)
				sb_puts(&txt, (pat == 0 || (pat == 2 && (i & 1))) ? "[" : "{\"k\":");
			TL = txt.n;
			memcpy(T, txt.p, TL);
			cur_depth = D;
			cur_flags = 0;
			struct json_tokener *tok = json_tokener_new_ex(D);
			vf_peak_reset();
			long live0 = vf_live();
			struct outcome o;
			do_call(tok, 0, TL, &o);
			long peak = vf_peak_live() - live0;
			if (o.status != ST_ERROR || o.err != json_tokener_error_depth)
			{
				char a[96];
				mc_violation("hostile-depth-not-refused", "unclosed nesting of %d with limit %d gives %s", reps, D, oc_str(&o, a, sizeof a));
			}
			else if (o.end_abs > (size_t)(6 * D + 6))
				mc_violation("hostile-depth-read-too-far", "depth error only at offset %zu with limit %d", o.end_abs, D);
			if (peak > 8L * D + 8)
				mc_violation("memory-beyond-limit", "peak of %ld live blocks with depth limit %d", peak, D);
			json_tokener_free(tok);
			/* byte-at-a-time delivery of the first 8*D+16 bytes */
			tok = json_tokener_new_ex(D);
			size_t lim = (size_t)(8 * D + 16);
			struct outcome b;
			memset(&b, 0, sizeof b);
			size_t at = 0;
			for (; at < lim; at++)
			{
				do_call(tok, at, at + 1, &b);
				if (b.status != ST_CONTINUE)
					break;
			}
			if (b.status != ST_ERROR || b.err != json_tokener_error_depth || b.end_abs != o.end_abs)
			{
				char a[96];
				mc_violation("hostile-depth-chunked-differs", "bytewise delivery ends with %s at byte %zu, one shot: depth error at %zu", oc_str(&b, a, sizeof a), at,
				             o.end_abs);
			}
			json_tokener_free(tok);
			if (vf_live())
			{
				mc_violation("leak", "%ld blocks live", vf_live());
				mc_restart_worker();
			}
			mc_nontrivial(mc_hash(&D, sizeof D, (uint64_t)pat));
			cur_depth = 32;
		}
}

/* ---- family: a NUL byte inside the length, at every position of small documents (with comments,
 * nesting, strings) followed by more text: the scanner meets its end-of-text byte in every state,
 * at every depth, and the stream check then resumes on what follows ---- */
static void fam_nul_inside(void)
{
	cur_fam = "nul-inside";
	static const char *base[] = {"[1/*c*/,2]", "{\"a\":1/*c*/}", "[1//c\n,2]", "[[2]/*c*/]", "{\"a\":[1]/*x*/,\"b\":2}", "\"ab\"", "[1,2]", "{\"a\":{\"b\":1}}",
	                             "[true /*c*/ ]", " [null]", "/*c*/[1]", "[\"s\"/*c*/]", "[1.5e3/*c*/,{}]", "[-7//x\n]"};
	for (unsigned b = 0; b < sizeof base / sizeof base[0]; b++)
	{
		size_t n = strlen(base[b]);
		for (size_t pos = 0; pos <= n; pos++)
		{
			if (mc_deadline())
				return;
			memcpy(T, base[b], pos);
			T[pos] = 0;
			memcpy(T + pos + 1, base[b] + pos, n - pos);
			TL = n + 1;
			for (int f = 0; f < nflagsets; f += (mc_tier ? 1 : 2))
			{
				cur_flags = flagsets[f];
				explore_text();
			}
		}
	}
}

static void enumerate(void)
{
	const char *mode = mc_opt("mode", "c03");
	const char *only = mc_opt("fam", "");
	opt_mode = !strcmp(mode, "c04") ? 1 : !strcmp(mode, "c15") ? 2 : 0;
	opt_reset_probes = opt_mode >= 1; /* C04 and C15: a reset parser behaves like a new one (also after a nesting error at a small limit) */
	if (opt_mode == 2)
	{
		fam_depth();
		return;
	}
	if (opt_mode == 1 && (!*only || !strcmp(only, "arbitrary")))
	{
		opt_reset_probes = 0;
		opt_streams = 0;
		fam_arbitrary();
		opt_reset_probes = 1;
		opt_streams = 1;
	}
	if (!*only || !strcmp(only, "nul"))
		fam_nul_inside();
	if (!*only || !strcmp(only, "docs"))
		fam_docs();
	if (!*only || !strcmp(only, "scanners"))
		fam_scanners();
	/* C04 quick: the token-sequence family is covered by C03 quick (fast build); under the
	 * sanitizers it is part of the thorough tier */
	if ((!*only && !(opt_mode == 1 && !mc_tier)) || !strcmp(only, "tokens"))
		fam_tokens();
}

static int replay(const char *desc)
{
	long f = 0, d = 32;
	const char *mode = mc_opt("mode", "c03");
	opt_mode = !strcmp(mode, "c04") ? 1 : !strcmp(mode, "c15") ? 2 : 0;
	opt_reset_probes = opt_mode >= 1; /* C04 and C15: a reset parser behaves like a new one (also after a nesting error at a small limit) */
	mc_desc_int(desc, "flags", &f);
	mc_desc_int(desc, "depth", &d);
	if (!mc_desc_hex(desc, "text", T, sizeof T - 1, &TL))
		return -1;
	cur_flags = (int)f;
	cur_depth = (int)d;
	cur_fam = "replay";
	if (opt_mode == 2)
		c15_oneshot_and_graph((int)d, 1);
	else
		explore_text();
	return (int)mc_violations();
}

int main(int argc, char **argv)
{
	struct mc_harness h = {"parsegraph", enumerate, describe, replay};
	return mc_main(argc, argv, &h);
}
