/* C02 - serialization: valid, value-preserving, flag-invariant, round-trips.
 * Trees are built through the API; all 64 flag sets; oracle per DESIGN.md 3/C02. */
#include "mc.h"
#include "json.h"
#include <errno.h>
#include <math.h>
#include <stdlib.h>
#include <string.h>

static const char *cur_fam = "?";
static V *cur_v;
static int cur_flags;
static sb_t cur_txt;

static char fmt_desc[96];
static void describe(sb_t *o)
{
	if (fmt_desc[0])
	{
		sb_printf(o, "fam=double-formats flags=%d %s", cur_flags, fmt_desc);
		return;
	}
	static char docbuf[1 << 15];
	sb_t doc;
	sb_init_fixed(&doc, docbuf, sizeof docbuf);
	if (cur_v)
		v_print(cur_v, &doc);
	sb_printf(o, "fam=%s flags=%d doc=", cur_fam, cur_flags);
	sb_hex(o, doc.p, doc.n);
	sb_puts(o, " tree=");
	if (cur_v)
		v_dump(cur_v, o, DUMP_SER);
}

static void strip_colour(const char *s, size_t n, sb_t *out)
{
	static const char *seq[] = {"\033[0m", "\033[0;32m", "\033[0;34m", "\033[0;35m"};
	sb_reset(out);
	for (size_t i = 0; i < n;)
	{
		int hit = 0;
		if (s[i] == '\033')
			for (int k = 0; k < 4; k++)
			{
				size_t l = strlen(seq[k]);
				if (i + l <= n && !memcmp(s + i, seq[k], l))
				{
					i += l;
					hit = 1;
					break;
				}
			}
		if (!hit)
			sb_putc(out, s[i++]);
	}
}
static void strip_ws(const char *s, size_t n, sb_t *out)
{
	int in_str = 0;
	sb_reset(out);
	for (size_t i = 0; i < n; i++)
	{
		char c = s[i];
		if (in_str)
		{
			sb_putc(out, c);
			if (c == '\\' && i + 1 < n)
				sb_putc(out, s[++i]);
			else if (c == '"')
				in_str = 0;
		}
		else if (c == '"')
		{
			in_str = 1;
			sb_putc(out, c);
		}
		else if (c != ' ' && c != '\n' && c != '\t' && c != '\r')
			sb_putc(out, c);
	}
}

static sb_t texts[64]; /* colour-free text per flag set of the current tree */
static sb_t raw, tmp, d1, d2;

/* classify a NOZERO value change narrowly (for the known-finding signature) */
static int has_exponent_ending_in_zero(const char *full)
{
	const char *e = strpbrk(full, "eE");
	return e && full[strlen(full) - 1] == '0';
}

/* when set, check_tree judges this already built (and since modified) node against the model value */
static struct json_object *(*prebuilt_fn)(int);
static int prebuilt_arg, prebuilt_wrap;
static void check_tree(V *v)
{
	cur_v = v;
	if (!mc_case_begin())
		return;
	struct json_object *o;
	if (prebuilt_fn)
	{
		o = prebuilt_fn(prebuilt_arg);
		if (prebuilt_wrap)
		{
			struct json_object *w = json_object_new_array();
			json_object_array_add(w, o);
			o = w;
		}
	}
	else
		o = v_build(v);
	sb_reset(&d1);
	v_dump(v, &d1, 0);
	int nontriv = 0;
	for (int flags = 0; flags < 64; flags++)
	{
		cur_flags = flags;
		size_t len = 12345;
		MC_COUNT("calls", 1);
		errno = mc_errno_pre;
		const char *s = json_object_to_json_string_length(o, flags, &len);
		if (!s)
		{
			mc_violation("serialize-null", "serializer returned NULL without any allocation failure");
			continue;
		}
		if (len != strlen(s))
			mc_violation("length-mismatch", "reported length %zu, strlen %zu", len, strlen(s));
		sb_reset(&cur_txt);
		sb_put(&cur_txt, s, strlen(s));
		sb_reset(&raw);
		sb_put(&raw, s, strlen(s));
		/* (vi) second serialization identical */
		const char *s2 = json_object_to_json_string_ext(o, flags);
		if (!s2 || strcmp(s2, sb_str(&raw)))
			mc_violation("second-serialization-differs", "second call gave a different text");
		/* (ii) colour */
		strip_colour(raw.p, raw.n, &texts[flags]);
		if (flags & JSON_C_TO_STRING_COLOR)
		{
			if (strcmp(sb_str(&texts[flags]), sb_str(&texts[flags & ~JSON_C_TO_STRING_COLOR])))
				mc_violation("colour-changes-text", "text without the ANSI sequences differs from the text produced without COLOR");
			if (memchr(texts[flags].p, 033, texts[flags].n))
				mc_violation("colour-unknown-escape", "unknown escape sequence left after removing the four documented ones");
		}
		else if (memchr(raw.p, 033, raw.n))
			mc_violation("raw-escape-byte", "raw ESC byte in text without COLOR");
		/* (iii) reference reader accepts and denotes the tree */
		struct rr_opts ro = {.strict_range = 1};
		struct rr_result rr;
		rr_parse((const unsigned char *)texts[flags].p, texts[flags].n, &ro, &rr);
		if (rr.status != RR_OK)
		{
			mc_violation("invalid-json-emitted", "reference reader rejects the text at offset %zu: %.200s", rr.err_pos, sb_str(&texts[flags]));
			continue;
		}
		sb_reset(&d2);
		v_dump(rr.value, &d2, 0);
		if (strcmp(sb_str(&d1), sb_str(&d2)))
		{
			const char *sig = "text-denotes-other-value";
			if ((flags & JSON_C_TO_STRING_NOZERO) && v->k == V_DBL && !v->numtext)
			{
				char full[64];
				snprintf(full, sizeof full, "%.17g", v->d);
				if (has_exponent_ending_in_zero(full))
					sig = "nozero-trims-exponent";
			}
			mc_violation(sig, "tree %s, text denotes %s (%.120s)", sb_str(&d1), sb_str(&d2), sb_str(&texts[flags]));
		}
		/* (iv) formatting flags only change whitespace */
		int base = flags & (JSON_C_TO_STRING_NOZERO | JSON_C_TO_STRING_NOSLASHESCAPE);
		if (flags != base && !(flags & JSON_C_TO_STRING_COLOR))
		{
			strip_ws(texts[flags].p, texts[flags].n, &tmp);
			if (strcmp(sb_str(&tmp), sb_str(&texts[base])))
				mc_violation("format-flag-changes-token", "after removing insignificant whitespace the text differs from the PLAIN text: %.150s vs %.150s",
				             sb_str(&tmp), sb_str(&texts[base]));
		}
		if (texts[flags].n > 6)
			nontriv = 1;
		mc_outcome(mc_hash(texts[flags].p, texts[flags].n, 0));
		/* (v) json-c round trip */
		struct json_tokener *tok = json_tokener_new_ex(256);
		struct json_object *back = json_tokener_parse_ex(tok, texts[flags].p, (int)texts[flags].n + 1);
		if (json_tokener_get_error(tok) != json_tokener_success)
			mc_violation("reparse-fails", "json-c rejects its own output: %s", json_tokener_error_desc(json_tokener_get_error(tok)));
		else
		{
			if (!json_object_equal(o, back))
			{
				const char *sig = "reparse-not-equal";
				if ((flags & JSON_C_TO_STRING_NOZERO) && v->k == V_DBL && !v->numtext)
				{
					char full[64];
					snprintf(full, sizeof full, "%.17g", v->d);
					if (has_exponent_ending_in_zero(full))
						sig = "nozero-trims-exponent";
				}
				mc_violation(sig, "json_object_equal(tree, parse(text)) is false for %.150s", sb_str(&texts[flags]));
			}
			const char *again = json_object_to_json_string_ext(back, flags);
			if (!again || strcmp(again, sb_str(&raw)))
				mc_violation("reserialize-differs", "serialize(parse(text)) = %.150s, text = %.150s", again ? again : "(null)", sb_str(&raw));
		}
		json_object_put(back);
		json_tokener_free(tok);
	}
	/* json_object_get_string() on a node that is not a string returns its JSON text (default formatting) */
	if (o && v->k != V_STR)
	{
		MC_COUNT("calls", 1);
		const char *g = json_object_get_string(o);
		char *gc = g ? strdup(g) : NULL;
		const char *t = json_object_to_json_string(o);
		if (!gc || !t || strcmp(gc, t))
			mc_violation("get-string-of-non-string-differs", "json_object_get_string gives %.100s, json_object_to_json_string gives %.100s", gc ? gc : "(null)", t ? t : "(null)");
		free(gc);
	}
	json_object_put(o);
	if (vf_live())
		mc_violation("leak", "%ld blocks live after release", vf_live());
	if (nontriv)
		mc_nontrivial(mc_hash(d1.p, d1.n, 0));
	mc_sample_current();
}

/* wrappers: the tree alone, inside an array, as a member value */
static void check_in_contexts(V *leaf, int contexts)
{
	check_tree(leaf);
	if (contexts)
	{
		V *a = v_arr(2);
		a->items[0] = v_clone(leaf);
		a->items[1] = v_clone(leaf);
		check_tree(a);
		V *o = v_obj(1);
		v_obj_set(o, 0, "k", 1, v_clone(leaf));
		check_tree(o);
	}
}

static void fam_strings(void)
{
	unsigned char b[64];
	cur_fam = "bytes-len0-2";
	va_reset();
	check_in_contexts(v_str("", 0), 1);
	for (int a = 0; a < 256; a++)
	{
		va_reset();
		b[0] = (unsigned char)a;
		check_in_contexts(v_str(b, 1), 1);
		if (a)
		{
			V *o = v_obj(1);
			v_obj_set(o, 0, b, 1, v_int(0, 1));
			check_tree(o);
		}
		for (int c = 0; c < 256; c++)
		{
			if (!mc_tier && !(a < 0x30 || a == '\\' || a == 0x7f || a >= 0xf0 || c < 0x30 || c == '\\' || c == 0x7f || c >= 0xf0))
				continue;
			va_reset();
			b[1] = (unsigned char)c;
			check_tree(v_str(b, 2));
			if (a && c)
			{
				V *o = v_obj(1);
				v_obj_set(o, 0, b, 2, v_strz("v"));
				check_tree(o);
			}
		}
	}
	cur_fam = "escape-run";
	static const unsigned char special[] = {'"', '\\', '/', '\b', '\f', '\n', '\r', '\t', 0x00, 0x1f, 0x7f, 0xff, 0x01, ' '};
	for (int len = 3; len <= 40; len++)
		for (int pos = 0; pos < len; pos++)
			for (unsigned k = 0; k < sizeof special; k++)
			{
				va_reset();
				memset(b, 'x', (size_t)len);
				b[pos] = special[k];
				check_tree(v_str(b, (size_t)len));
				if (special[k] && (len < 8 || len > 28))
				{
					V *o = v_obj(1);
					v_obj_set(o, 0, b, (size_t)len, v_null());
					check_tree(o);
				}
				if (pos + 1 < len && (len == 31 || len == 32 || len == 33 || len == 5))
				{
					/* two adjacent specials across the 32-byte growth boundary */
					for (unsigned k2 = 0; k2 < sizeof special; k2++)
					{
						b[pos + 1] = special[k2];
						check_tree(v_str(b, (size_t)len));
					}
				}
			}
}

static void fam_ints(void)
{
	cur_fam = "int-lattice";
	static const int shifts[] = {0, 7, 8, 15, 16, 31, 32, 52, 53, 62, 63};
	for (unsigned s = 0; s < sizeof shifts / sizeof shifts[0]; s++)
		for (int delta = -2; delta <= 2; delta++)
		{
			va_reset();
			uint64_t base = (uint64_t)1 << shifts[s];
			uint64_t m = base + (uint64_t)(int64_t)delta;
			check_in_contexts(v_int(0, m), 1);
			if (m <= ((uint64_t)1 << 63))
				check_in_contexts(v_int(1, m), 1);
		}
	for (int delta = 0; delta <= 3; delta++)
	{
		va_reset();
		check_in_contexts(v_int(0, UINT64_MAX - (uint64_t)delta), 1);
		check_in_contexts(v_int(0, (uint64_t)INT64_MAX - (uint64_t)delta), 1);
		check_in_contexts(v_int(1, ((uint64_t)1 << 63) - (uint64_t)delta), 1);
	}
	/* the same small value held as uint64 and as int64 node */
	cur_fam = "int-signedness";
	for (uint64_t m = 0; m < 3; m++)
	{
		if (!mc_case_begin())
			continue;
		struct json_object *u = json_object_new_uint64(m), *i = json_object_new_int64((int64_t)m);
		for (int flags = 0; flags < 64; flags++)
		{
			char a[64];
			snprintf(a, sizeof a, "%s", json_object_to_json_string_ext(u, flags));
			if (strcmp(a, json_object_to_json_string_ext(i, flags)))
				mc_violation("signedness-visible-in-text", "uint64 node %s vs int64 node %s", a, json_object_to_json_string_ext(i, flags));
		}
		json_object_put(u);
		json_object_put(i);
	}
}

static void check_double(double d)
{
	if (d != d || isinf(d))
		return;
	va_reset();
	check_tree(v_dbl(d));
}
static void fam_doubles(void)
{
	cur_fam = "double-decimal";
	int mmax = mc_tier ? 999 : 99;
	int estep = mc_tier ? 1 : 7;
	for (int e = -330; e <= 310; e += estep)
		for (int m = 1; m <= mmax; m++)
		{
			if (mc_deadline())
				return;
			char t[32];
			snprintf(t, sizeof t, "%de%d", m, e);
			double d = strtod(t, NULL);
			check_double(d);
			check_double(-d);
		}
	cur_fam = "double-binade";
	for (int k = -1074; k <= 1023; k++)
	{
		double d = ldexp(1.0, k);
		check_double(d);
		check_double(nextafter(d, INFINITY));
		check_double(nextafter(d, 0));
		check_double(-d);
	}
	cur_fam = "double-lattice";
	static const double bs[] = {0, 2147483648.0, 4294967296.0, 9007199254740992.0, 9223372036854775808.0,
	                            18446744073709551616.0, 1e15, 1e16, 1e17, 1e20, 1e21, 1e22, 1e-4, 1e-5, 1e-6, 1e-7, 100, 1000, 0.1, 0.5};
	for (unsigned i = 0; i < sizeof bs / sizeof bs[0]; i++)
		for (int sg = -1; sg <= 1; sg += 2)
		{
			double b = bs[i] * sg;
			static const double off[] = {-1.5, -1, -0.5, 0, 0.5, 1, 1.5};
			for (unsigned k = 0; k < 7; k++)
				check_double(b + off[k]);
			check_double(nextafter(b, INFINITY));
			check_double(nextafter(b, -INFINITY));
		}
	check_double(-0.0);
	check_double(2.2250738585072014e-308);
	check_double(4.9406564584124654e-324);
	check_double(1.7976931348623157e308);
	/* every exponent shape of %.17g: d.ddd e+XX with XX ending in 0 */
	cur_fam = "double-exp-shapes";
	for (int e = -320; e <= 308; e++)
	{
		char t[32];
		snprintf(t, sizeof t, "1.5e%d", e);
		check_double(strtod(t, NULL));
		snprintf(t, sizeof t, "2e%d", e);
		check_double(strtod(t, NULL));
		snprintf(t, sizeof t, "1.25e%d", e);
		check_double(-strtod(t, NULL));
	}
	cur_fam = "double-retained-text";
	static const char *sp[] = {"1.0", "1.50", "1e2", "1E2", "1e+2", "1.0e-2", "0.1", "-0.0", "100.000", "1.5e20", "1.5e+20",
	                           "12.5E+10", "0e0", "0.0e-0", "1.7976931348623157e308", "5e-324", "123456789012345678901234.5", "-1.10"};
	for (unsigned i = 0; i < sizeof sp / sizeof sp[0]; i++)
	{
		va_reset();
		check_in_contexts(v_dbls(strtod(sp[i], NULL), sp[i]), 1);
	}
}

static void fam_structure(void)
{
	V *leaves[6];
	const char *keys[] = {"a", "", "/"};
	int nl = mc_tier ? 6 : 4;
	struct vfam f = {.width = 2, .leaves = leaves, .nleaves = nl, .keys = keys, .nkeys = 3, .dup_keys = 0};
	vfam_init(&f, 2);
	/* the literals and the empty containers, alone, inside an array and as a member value */
	cur_fam = "literals";
	for (int k = 0; k < 5; k++)
	{
		va_reset();
		check_in_contexts(k == 0 ? v_null() : k == 1 ? v_bool(0) : k == 2 ? v_bool(1) : k == 3 ? v_arr(0) : v_obj(0), 1);
	}
	{
		va_reset();
		V *a = v_arr(5);
		a->items[0] = v_bool(0);
		a->items[1] = v_null();
		a->items[2] = v_bool(1);
		a->items[3] = v_arr(0);
		a->items[4] = v_obj(0);
		check_tree(a);
		V *o = v_obj(3);
		v_obj_set(o, 0, "f", 1, v_bool(0));
		v_obj_set(o, 1, "n", 1, v_null());
		v_obj_set(o, 2, "t", 1, v_bool(1));
		check_tree(o);
	}
	cur_fam = "structure-T22";
	for (uint64_t i = 0; i < f.count[2]; i++)
	{
		if (mc_deadline())
			return;
		va_reset();
		leaves[0] = v_null();
		leaves[1] = v_strz("/");
		leaves[2] = v_dbl(1.5);
		leaves[3] = v_int(0, 0);
		leaves[4] = v_bool(1);
		leaves[5] = v_strz("");
		check_tree(vfam_get(&f, 2, i));
	}
	cur_fam = "nesting-chain";
	for (int depth = 1; depth <= 40; depth++)
		for (int pat = 0; pat < 3; pat++)
			for (int inner = 0; inner < 3; inner++)
			{
				va_reset();
				V *v = inner == 0 ? v_int(0, 7) : inner == 1 ? v_arr(0) : v_obj(0);
				for (int i = 0; i < depth; i++)
				{
					if (pat == 0 || (pat == 2 && (i & 1)))
					{
						V *a = v_arr(1);
						a->items[0] = v;
						v = a;
					}
					else
					{
						V *o = v_obj(2);
						v_obj_set(o, 0, "p", 1, v_strz("q"));
						v_obj_set(o, 1, "k", 1, v);
						v = o;
					}
				}
				check_tree(v);
			}
}

/* sizes beyond the small families: print-buffer doublings, table growths, deep indentation */
static void fam_scale(void)
{
	cur_fam = "scale-strings";
	static const int lens[] = {127, 128, 129, 255, 256, 257, 511, 512, 513, 1023, 1024, 1025, 4095, 4096, 4097};
	static unsigned char special[40];
	int nspecial = 0;
	for (int c = 0; c < 0x20; c++)
		special[nspecial++] = (unsigned char)c;
	special[nspecial++] = '"';
	special[nspecial++] = '\\';
	special[nspecial++] = '/';
	special[nspecial++] = 0x7f;
	special[nspecial++] = 0xff;
	static unsigned char big[5000];
	for (unsigned l = 0; l < sizeof lens / sizeof lens[0]; l++)
	{
		int len = lens[l];
		int poss[6] = {0, 1, len / 2, len - 2, len - 1, 30};
		for (int pi = 0; pi < 6; pi++)
			for (int k = 0; k < nspecial; k++)
			{
				va_reset();
				for (int i = 0; i < len; i++)
					big[i] = (unsigned char)('a' + i % 26);
				big[poss[pi]] = special[k];
				check_tree(v_str(big, (size_t)len));
				/* the same bytes as a member name (no NUL: names are C strings) */
				if (pi == 2 && special[k])
				{
					V *o = v_obj(1);
					v_obj_set(o, 0, (const char *)big, (size_t)len, v_int(0, 1));
					check_tree(o);
				}
			}
	}
	cur_fam = "scale-containers";
	static const int counts[] = {11, 12, 22, 33, 43, 65, 129};
	for (unsigned c = 0; c < sizeof counts / sizeof counts[0]; c++)
	{
		va_reset();
		int n = counts[c];
		V *a = v_arr((size_t)n);
		V *o = v_obj((size_t)n);
		for (int i = 0; i < n; i++)
		{
			char k[16];
			snprintf(k, sizeof k, "key%d/", i);
			a->items[i] = (i % 7 == 3) ? v_null() : (i % 5 == 1) ? v_strz("s/\"") : (i % 11 == 2) ? v_dbl(i + 0.5) : v_int(0, (uint64_t)i);
			v_obj_set(o, (size_t)i, k, strlen(k), v_clone(a->items[i]));
		}
		check_tree(a);
		check_tree(o);
		V *both = v_arr(2);
		both->items[0] = v_clone(o);
		both->items[1] = v_clone(a);
		check_tree(both);
	}
	cur_fam = "scale-nesting";
	for (int depth = 60; depth <= 120; depth += 30)
		for (int pat = 0; pat < 2; pat++)
		{
			va_reset();
			V *v = v_strz("leaf");
			for (int i = 0; i < depth; i++)
			{
				if (pat == 0 || (i & 1))
				{
					V *a = v_arr(2);
					a->items[0] = v_int(0, (uint64_t)i);
					a->items[1] = v;
					v = a;
				}
				else
				{
					V *o = v_obj(1);
					v_obj_set(o, 0, "k", 1, v);
					v = o;
				}
			}
			check_tree(v);
		}
}

/* ---- family: custom double formats (global, per thread, per node) ----
 * A custom format may round, so the tree's exact value is not required; what C02 still demands:
 * valid RFC 8259 text, a number token whose value is that of the formatted text, formatting
 * flags changing only whitespace, NOZERO not changing the value, correct length. */
static double v_number_value(const V *v)
{
	if (v->k == V_DBL)
		return v->d;
	return v->neg ? -(double)v->mag : (double)v->mag;
}
static void fam_formats(void)
{
	cur_fam = "double-formats";
	static const char *fmts[] = {"%.3f", "%.1f", "%.2e", "%.0f", "%g", "%.10g", "%f", "%e", "%.17g", "%.6G"};
	static const double vals[] = {0.0, -0.0, 2.0, -7.0, 1.5, 1.05, 0.125, 3e10, 1e-7, 123456.789, 0.1, 100.0, 0.5, 2.5, 1e15, 1e16, -1e-5, 10.0, 1.10, 20.25, 1e21, 7e-10, 999.9996, 0.0004};
	for (unsigned f = 0; f < sizeof fmts / sizeof fmts[0]; f++)
		for (unsigned vi = 0; vi < sizeof vals / sizeof vals[0]; vi++)
			for (int via = 0; via < 3; via++)
				for (int ctx = 0; ctx < 2; ctx++)
				{
					snprintf(fmt_desc, sizeof fmt_desc, "format=%s value=%a via=%d ctx=%d", fmts[f], vals[vi], via, ctx);
					cur_v = NULL;
					if (!mc_case_begin())
						continue;
					char want[400];
					snprintf(want, sizeof want, fmts[f], vals[vi]);
					if (strlen(want) > 100)
						continue;
					double expect = strtod(want, NULL);
					struct json_object *d = json_object_new_double(vals[vi]);
					if (via == 0)
						json_c_set_serialization_double_format(fmts[f], JSON_C_OPTION_GLOBAL);
					else if (via == 1)
						json_c_set_serialization_double_format(fmts[f], JSON_C_OPTION_THREAD);
					else
						json_object_set_serializer(d, json_object_double_to_json_string, (void *)fmts[f], NULL);
					struct json_object *o = d;
					if (ctx)
					{
						o = json_object_new_array();
						json_object_array_add(o, d);
					}
					for (int flags = 0; flags < 64; flags++)
					{
						cur_flags = flags;
						size_t len = 777;
						MC_COUNT("calls", 1);
						const char *t = json_object_to_json_string_length(o, flags, &len);
						if (!t)
						{
							mc_violation("serialize-null", "serializer returned NULL");
							continue;
						}
						if (len != strlen(t))
							mc_violation("length-mismatch", "reported length %zu, strlen %zu", len, strlen(t));
						sb_reset(&cur_txt);
						sb_put(&cur_txt, t, strlen(t));
						strip_colour(t, strlen(t), &texts[flags]);
						struct rr_opts ro = {.strict_range = 0}; /* "%.0f" of 1e21 is a 22-digit integer token: valid JSON */
						struct rr_result rr;
						rr_parse((const unsigned char *)texts[flags].p, texts[flags].n, &ro, &rr);
						if (rr.status != RR_OK)
						{
							mc_violation("invalid-json-emitted", "format %s: reference reader rejects %.100s", fmts[f], sb_str(&texts[flags]));
							continue;
						}
						const V *num = ctx ? (rr.value->k == V_ARR && rr.value->n == 1 ? rr.value->items[0] : NULL) : rr.value;
						if (!num || (num->k != V_DBL && num->k != V_INT))
						{
							mc_violation("text-denotes-other-value", "format %s: text %.100s is not %s", fmts[f], sb_str(&texts[flags]), ctx ? "an array of one number" : "a number");
							continue;
						}
						double got = v_number_value(num);
						if (num->k == V_INT && num->over)
							got = expect; /* integer token beyond 64 bits: the reference reader saturates, nothing to compare */
						if (!(got == expect))
							mc_violation((flags & JSON_C_TO_STRING_NOZERO) ? "nozero-changes-value" : "text-denotes-other-value", "format %s: text %.100s denotes %.17g, the formatted value is %.17g (%s)",
							             fmts[f], sb_str(&texts[flags]), got, expect, want);
						int base = flags & (JSON_C_TO_STRING_NOZERO | JSON_C_TO_STRING_NOSLASHESCAPE);
						if (flags != base)
						{
							strip_ws(texts[flags].p, texts[flags].n, &tmp);
							if (strcmp(sb_str(&tmp), sb_str(&texts[base])))
								mc_violation("format-flag-changes-token", "format %s: %.100s vs %.100s", fmts[f], sb_str(&tmp), sb_str(&texts[base]));
						}
						mc_outcome(mc_hash(texts[flags].p, texts[flags].n, 0));
					}
					json_object_put(o);
					json_c_set_serialization_double_format(NULL, JSON_C_OPTION_GLOBAL);
					json_c_set_serialization_double_format(NULL, JSON_C_OPTION_THREAD);
					if (vf_live())
						mc_violation("leak", "%ld blocks live after release and format reset", vf_live());
					mc_nontrivial(mc_hash_str(fmt_desc));
					mc_sample_current();
				}
	fmt_desc[0] = 0;
}

/* ---- family: nodes with a history (setters), not fresh from a constructor ---- */
static const char s45[] = "a longer text with \"quotes\", a / and a \n in it";
static struct json_object *hist_build(int k)
{
	struct json_object *o = NULL;
	switch (k)
	{
	case 0: o = json_object_new_uint64(UINT64_MAX); json_object_set_int64(o, -5); break;
	case 1: o = json_object_new_uint64(7); json_object_set_int(o, -2147483647 - 1); break;
	case 2: o = json_object_new_int64(-9); json_object_set_uint64(o, (uint64_t)1 << 63); break;
	case 3: o = json_object_new_int64(INT64_MAX); json_object_int_inc(o, 1); json_object_set_int64(o, -1); break;
	case 4: o = json_object_new_int(5); json_object_int_inc(o, -10); break;
	case 5: o = json_object_new_double_s(1.5, "1.50"); json_object_set_double(o, 2.5); break;
	case 6: o = json_object_new_double(1.0); json_object_set_double(o, -0.0); break;
	case 7: o = json_object_new_string("short"); json_object_set_string(o, s45); break;
	case 8: o = json_object_new_string(s45); json_object_set_string(o, s45); json_object_set_string(o, "x\ty"); break;
	case 9: o = json_object_new_string(""); json_object_set_string_len(o, "a\0b/\"", 6); break;
	case 10: o = json_object_new_string(s45); json_object_set_string(o, ""); break;
	case 11: o = json_object_new_boolean(1); json_object_set_boolean(o, 0); break;
	case 12: o = json_object_new_uint64(UINT64_MAX); json_object_set_int64(o, -5); json_object_set_uint64(o, 3); break;
	/* user data attached to a node is the user's business: it never shows in the text */
	case 13: o = json_object_new_double(1.5); json_object_set_userdata(o, (void *)"note", NULL); break;
	case 14: o = json_object_new_double_s(1.5, "1.50"); json_object_set_double(o, 2.5); json_object_set_userdata(o, (void *)"price-tag", NULL); break;
	case 15: o = json_object_new_double(-0.25); json_object_set_serializer(o, NULL, (void *)"%d items", NULL); break;
	case 16: o = json_object_new_int(7); json_object_set_userdata(o, (void *)"seven", NULL); break;
	case 17: o = json_object_new_string("s"); json_object_set_serializer(o, NULL, (void *)"tag", NULL); break;
	case 18: o = json_object_new_boolean(1); json_object_set_userdata(o, (void *)"yes", NULL); break;
	/* small values in the unsigned representation (the re-parsed text comes back signed) */
	case 19: o = json_object_new_uint64(0); break;
	case 20: o = json_object_new_int64(5); json_object_set_uint64(o, 0); break;
	case 21: o = json_object_new_uint64(1); break;
	}
	return o;
}
static V *hist_model(int k)
{
	switch (k)
	{
	case 0: return v_int(1, 5);
	case 1: return v_int(1, (uint64_t)1 << 31);
	case 2: return v_int(0, (uint64_t)1 << 63);
	case 3: return v_int(1, 1);
	case 4: return v_int(1, 5);
	case 5: return v_dbl(2.5);
	case 6: return v_dbl(-0.0);
	case 7: return v_strz(s45);
	case 8: return v_strz("x\ty");
	case 9: return v_str("a\0b/\"", 6);
	case 10: return v_strz("");
	case 11: return v_bool(0);
	case 12: return v_int(0, 3);
	case 13: return v_dbl(1.5);
	case 14: return v_dbl(2.5);
	case 15: return v_dbl(-0.25);
	case 16: return v_int(0, 7);
	case 17: return v_strz("s");
	case 18: return v_bool(1);
	case 19: return v_int(0, 0);
	case 20: return v_int(0, 0);
	default: return v_int(0, 1);
	}
}
static void fam_histories(void)
{
	cur_fam = "set-histories";
	for (int k = 0; k <= 21; k++)
		for (int wrap = 0; wrap < 2; wrap++)
		{
			va_reset();
			V *m = hist_model(k);
			if (wrap)
			{
				V *a = v_arr(1);
				a->items[0] = m;
				m = a;
			}
			prebuilt_fn = hist_build;
			prebuilt_arg = k;
			prebuilt_wrap = wrap;
			check_tree(m);
			prebuilt_fn = NULL;
			prebuilt_wrap = 0;
		}
}

static void enumerate(void)
{
	const char *only = mc_opt("fam", "");
	if (!*only || !strcmp(only, "scale"))
		fam_scale();
	if (!*only || !strcmp(only, "histories"))
		fam_histories();
	if (!*only || !strcmp(only, "formats"))
		fam_formats();
	if (!*only || !strcmp(only, "ints"))
		fam_ints();
	if (!*only || !strcmp(only, "strings"))
		fam_strings();
	if (!*only || !strcmp(only, "doubles"))
		fam_doubles();
	if (!*only || !strcmp(only, "structure"))
		fam_structure();
}

static int replay(const char *desc)
{
	static unsigned char doc[1 << 14];
	size_t n = 0;
	if (strstr(desc, "fam=double-formats"))
	{
		mc_case_begin_all();
		fam_formats();
		return (int)mc_violations();
	}
	if (!mc_desc_hex(desc, "doc", doc, sizeof doc, &n))
		return -1;
	struct rr_opts ro = {0};
	struct rr_result rr;
	rr_parse(doc, n, &ro, &rr);
	if (rr.status)
	{
		fprintf(stderr, "c02 replay: cannot read back the tree text\n");
		return -1;
	}
	cur_fam = "replay";
	check_tree(rr.value);
	return (int)mc_violations();
}

int main(int argc, char **argv)
{
	struct mc_harness h = {"c02", enumerate, describe, replay};
	return mc_main(argc, argv, &h);
}
