/* C16 - strict mode rejects each documented extension anywhere; default mode accepts it.
 * Base documents x 8 extension kinds x every admissible position (computed from the
 * reference reader's token list) x 3 modes. */
#include "mc.h"
#include "json.h"
#include <errno.h>
#include <stdlib.h>
#include <string.h>
#include <ctype.h>

static unsigned char T[4096];
static size_t TL;
static const char *cur_kind = "?";
static int cur_hist;
static int cur_mode, cur_hist;
static void describe(sb_t *o)
{
	sb_printf(o, "kind=%s mode=%d tokener-history=%d text=", cur_kind, cur_mode, cur_hist);
	sb_hex(o, T, TL);
	sb_puts(o, " ascii=");
	for (size_t i = 0; i < TL && i < 160; i++)
		sb_putc(o, (T[i] >= 0x20 && T[i] < 0x7f) ? (char)T[i] : '.');
}

static sb_t d_exp, d_got;
/* expect: V the default-mode parse must produce (NULL: only success is required);
 * end_of_value: for the trailing-bytes kind, where the value ends */
static void run_modes(const V *expect, long end_of_value, int numeric_compare)
{
	if (!mc_case_begin())
		return;
	char *buf = mc_guard_buf(TL + 1);
	memcpy(buf, T, TL);
	buf[TL] = 0;
	/* the three modes, each also combined with JSON_TOKENER_VALIDATE_UTF8 (which changes nothing for these texts) */
	static const int modes[6] = {0, JSON_TOKENER_STRICT, JSON_TOKENER_STRICT | JSON_TOKENER_ALLOW_TRAILING_CHARS, JSON_TOKENER_VALIDATE_UTF8,
	                             JSON_TOKENER_STRICT | JSON_TOKENER_VALIDATE_UTF8, JSON_TOKENER_STRICT | JSON_TOKENER_ALLOW_TRAILING_CHARS | JSON_TOKENER_VALIDATE_UTF8};
	for (int mm = 0; mm < 6; mm++)
	{
		int m = mm % 3;
		if (m == 2 && end_of_value < 0)
			continue;
		cur_mode = modes[mm];
		for (int hist = 0; hist < 4; hist++)
		{
		/* the mode is a property of the tokener, not of one call: it must survive earlier use and
		 * json_tokener_reset (hist 1: reset; 2: an abandoned partial text, reset; 3: a failed text, reset) */
		cur_hist = hist;
		struct json_tokener *tok = json_tokener_new();
		json_tokener_set_flags(tok, modes[mm]);
		if (hist == 2)
			json_object_put(json_tokener_parse_ex(tok, "[1,{\"a\":\"x", 11));
		else if (hist == 3)
			json_object_put(json_tokener_parse_ex(tok, "[1,]x", 6));
		if (hist)
			json_tokener_reset(tok);
		MC_COUNT("calls", 1);
		errno = mc_errno_pre;
		struct json_object *o = json_tokener_parse_ex(tok, buf, (int)TL + 1);
		enum json_tokener_error e = json_tokener_get_error(tok);
		size_t end = json_tokener_get_parse_end(tok);
		if (m == 1)
		{
			if (e == json_tokener_success)
			{
				char sig[64];
				snprintf(sig, sizeof sig, "strict-accepts:%s", cur_kind);
				mc_violation(sig, "strict mode accepted the text (parsed to %s)", o ? json_object_to_json_string(o) : "null");
			}
		}
		else if (e != json_tokener_success)
		{
			char sig[64];
			snprintf(sig, sizeof sig, "%s-rejects:%s", m == 0 ? "default" : "strict+allow-trailing", cur_kind);
			mc_violation(sig, "%s at offset %zu", json_tokener_error_desc(e), end);
		}
		else
		{
			if (expect)
			{
				sb_reset(&d_exp);
				sb_reset(&d_got);
				v_dump(expect, &d_exp, 0);
				vf_dump(o, &d_got, 0);
				int same = !strcmp(sb_str(&d_exp), sb_str(&d_got));
				if (!same && numeric_compare)
				{
					/* the dangling exponent turns an integer token into a double of the same value */
					V *gv = v_from_json(o);
					sb_reset(&d_got);
					v_dump(gv, &d_got, 0);
					same = !strcmp(sb_str(&d_exp), sb_str(&d_got));
				}
				if (!same)
				{
					char sig[64];
					snprintf(sig, sizeof sig, "value-differs:%s", cur_kind);
					mc_violation(sig, "mode %d parsed %.150s, expected %.150s", modes[mm], sb_str(&d_got), sb_str(&d_exp));
				}
			}
			if (m == 2 && (long)end != end_of_value)
				mc_violation("parse-end-with-allow-trailing", "strict|allow_trailing reports the end at %zu, the value ends at %ld", end, end_of_value);
		}
		mc_outcome(mc_hash(&e, sizeof e, (uint64_t)m * 7 + mc_hash_str(cur_kind)));
		json_object_put(o);
		json_tokener_free(tok);
		}
	}
	cur_hist = 0;
	if (vf_live())
	{
		mc_violation("leak", "%ld blocks live", vf_live());
		mc_restart_worker();
	}
	mc_nontrivial(mc_hash(T, TL, 0));
	mc_sample_current();
}

static unsigned char B[2048];
static size_t BL;
static rr_token TK[512];
static int NT;
static V *BV;

static void splice(size_t at, size_t del, const char *ins, size_t il)
{
	memcpy(T, B, at);
	memcpy(T + at, ins, il);
	memcpy(T + at + il, B + at + del, BL - at - del);
	TL = BL - del + il;
}
static V *reparse_valid(void)
{
	struct rr_result rr;
	rr_parse(T, TL, NULL, &rr);
	return rr.status ? NULL : rr.value;
}

static void all_extensions(void)
{
	va_mark_t mark = va_mark();
	NT = rr_tokens(B, BL, TK, 512);
	if (NT <= 0)
		abort();
	{
		struct rr_result rr;
		rr_parse(B, BL, NULL, &rr);
		BV = rr.value;
	}
	/* the base document itself must be accepted by all modes */
	cur_kind = "base";
	memcpy(T, B, BL);
	TL = BL;
	{
		if (mc_case_begin())
		{
			for (int strict = 0; strict < 2; strict++)
			{
				struct json_tokener *tok = json_tokener_new();
				json_tokener_set_flags(tok, strict ? JSON_TOKENER_STRICT : 0);
				char *buf = mc_guard_buf(TL + 1);
				memcpy(buf, T, TL);
				buf[TL] = 0;
				errno = mc_errno_pre;
				struct json_object *o = json_tokener_parse_ex(tok, buf, (int)TL + 1);
				if (json_tokener_get_error(tok) != json_tokener_success)
					mc_violation("base-document-rejected", "valid base document rejected (strict=%d)", strict);
				json_object_put(o);
				json_tokener_free(tok);
			}
		}
	}
	/* 1. comments in every gap */
	cur_kind = "comment";
	for (int g = 0; g <= NT; g++)
	{
		size_t at = g < NT ? TK[g].start : BL;
		splice(at, 0, "/*x*/", 5);
		run_modes(BV, -1, 0);
		splice(at, 0, "//x\n", 4);
		run_modes(BV, -1, 0);
	}
	/* 2. single quotes on every string and member name */
	for (int t = 0; t < NT; t++)
		if (TK[t].kind == 's' || TK[t].kind == 'k')
		{
			cur_kind = TK[t].kind == 's' ? "single-quoted-string" : "single-quoted-name";
			memcpy(T, B, BL);
			TL = BL;
			T[TK[t].start] = '\'';
			T[TK[t].end - 1] = '\'';
			run_modes(BV, -1, 0);
		}
	/* 3. trailing comma before every closing bracket of a non-empty container */
	cur_kind = "trailing-comma";
	for (int t = 1; t < NT; t++)
		if ((TK[t].kind == ']' || TK[t].kind == '}') && TK[t - 1].kind != '[' && TK[t - 1].kind != '{')
		{
			splice(TK[t].start, 0, ",", 1);
			run_modes(BV, -1, 0);
		}
	/* 4. every non-lowercase spelling of every literal */
	cur_kind = "literal-case";
	for (int t = 0; t < NT; t++)
		if (TK[t].kind == 't' || TK[t].kind == 'f' || TK[t].kind == 'z')
		{
			int n = (int)(TK[t].end - TK[t].start);
			for (int mask = 1; mask < (1 << n); mask++)
			{
				memcpy(T, B, BL);
				TL = BL;
				for (int k = 0; k < n; k++)
					if (mask & (1 << k))
						T[TK[t].start + (size_t)k] = (unsigned char)toupper(T[TK[t].start + (size_t)k]);
				run_modes(BV, -1, 0);
			}
		}
	/* 5. raw control characters inside strings and member names */
	for (int t = 0; t < NT; t++)
		if (TK[t].kind == 's' || TK[t].kind == 'k')
		{
			cur_kind = TK[t].kind == 's' ? "control-char-in-string" : "control-char-in-name";
			for (size_t pos = TK[t].start + 1; pos < TK[t].end; pos++)
				for (int c = 1; c < 0x20; c++)
				{
					if (mc_tier == 0 && !(c == 1 || c == 9 || c == 10 || c == 13 || c == 0x1f))
						continue;
					/* expected value: the same position holding the escaped form */
					char esc[8];
					snprintf(esc, sizeof esc, "\\u%04x", c);
					splice(pos, 0, esc, 6);
					V *ev = reparse_valid();
					char raw[2] = {(char)c, 0};
					splice(pos, 0, raw, 1);
					run_modes(ev, -1, 0);
				}
		}
	/* 6. superfluous leading zero */
	cur_kind = "leading-zero";
	for (int t = 0; t < NT; t++)
		if (TK[t].kind == 'n')
		{
			size_t at = TK[t].start + (B[TK[t].start] == '-' ? 1 : 0);
			splice(at, 0, "0", 1);
			run_modes(BV, -1, 0);
			splice(at, 0, "00", 2);
			run_modes(BV, -1, 0);
		}
	/* 7. exponent without digits */
	cur_kind = "dangling-exponent";
	for (int t = 0; t < NT; t++)
		if (TK[t].kind == 'n')
		{
			int has_e = 0;
			for (size_t k = TK[t].start; k < TK[t].end; k++)
				has_e |= B[k] == 'e' || B[k] == 'E';
			if (has_e)
				continue;
			static const char *sfx[] = {"e", "e+", "E-", "E"};
			for (int k = 0; k < 4; k++)
			{
				splice(TK[t].end, 0, "e0", 2);
				V *ev = reparse_valid();
				splice(TK[t].end, 0, sfx[k], strlen(sfx[k]));
				run_modes(ev, -1, 1);
			}
		}
	/* 8. trailing non-whitespace after the value */
	cur_kind = "trailing-bytes";
	{
		static const char *tr[] = {"x", "1", "]", "{", " x", "\n[1]", "\"", ",", "/*c*/", "//c\n", " /*c*/x", "'"};
		int bare_number = NT == 1 && TK[0].kind == 'n';
		for (int k = 0; k < 12; k++)
		{
			if (bare_number && (isdigit((unsigned char)tr[k][0]) || strchr(".eE+-", tr[k][0])))
				continue;
			splice(BL, 0, tr[k], strlen(tr[k]));
			/* with allow_trailing the reported end is the end of the value, or after the
			 * whitespace that follows it (both are "where the value ended") */
			long endv = (long)BL;
			if (tr[k][0] == ' ' || tr[k][0] == '\n')
				endv = (long)BL + 1;
			run_modes(BV, endv, 0);
		}
	}
	va_release(mark);
}

static sb_t txt;
static void enumerate(void)
{
	V *leaves[8];
	const char *keys[] = {"a", "b"};
	struct vfam f = {.width = 2, .leaves = leaves, .nleaves = 8, .keys = keys, .nkeys = 2, .dup_keys = 0};
	vfam_init(&f, 1);
	for (uint64_t i = 0; i < f.count[1]; i++)
	{
		if (mc_deadline())
			return;
		va_reset();
		leaves[0] = v_int(0, 0);
		leaves[1] = v_int(0, 12);
		leaves[2] = v_int(1, 3);
		leaves[3] = v_dbls(1.5, "1.5");
		leaves[4] = v_bool(1);
		leaves[5] = v_bool(0);
		leaves[6] = v_null();
		leaves[7] = v_strz("s");
		V *v = vfam_get(&f, 1, i);
		sb_reset(&txt);
		v_print(v, &txt);
		memcpy(B, txt.p, txt.n);
		BL = txt.n;
		all_extensions();
	}
	/* nesting 2: containers over a pool of nesting-1 values, and spaced layouts */
	static const char *docs[] = {
	    "[[0,12],{\"a\":-3}]", "{\"a\":{\"b\":1.5,\"a\":true},\"b\":[false,null]}", "[{\"a\":\"s\"},[\"s\",\"t\"]]", "{\"a\":[[],{}],\"b\":{\"a\":[0]}}",
	    "[[[12]],{\"b\":{\"a\":null}}]", " { \"a\" : [ 1.5 , true ] , \"b\" : \"s\" } ", "[\n-3,\n{\"a\":\n false}\n]", "{\"a\":[0,{\"b\":[-3,\"s\"]}]}",
	    "[[\"s\",12,1.5],[true,false,null]]", "{\"a\":{\"a\":{\"a\":0}}}", "[[[[]]]]", "[1.5e3,-0.5,10]"};
	for (unsigned i = 0; i < sizeof docs / sizeof docs[0]; i++)
	{
		va_reset();
		BL = strlen(docs[i]);
		memcpy(B, docs[i], BL);
		all_extensions();
	}
}
static int replay(const char *desc)
{
	(void)desc;
	if (!mc_desc_hex(desc, "text", T, sizeof T, &TL))
		return -1;
	cur_kind = "replay";
	/* re-run the three modes and print what each does */
	static const int modes[6] = {0, JSON_TOKENER_STRICT, JSON_TOKENER_STRICT | JSON_TOKENER_ALLOW_TRAILING_CHARS, JSON_TOKENER_VALIDATE_UTF8,
	                             JSON_TOKENER_STRICT | JSON_TOKENER_VALIDATE_UTF8, JSON_TOKENER_STRICT | JSON_TOKENER_ALLOW_TRAILING_CHARS | JSON_TOKENER_VALIDATE_UTF8};
	int bad = 0;
	for (int m = 0; m < 6; m++)
	{
		struct json_tokener *tok = json_tokener_new();
		json_tokener_set_flags(tok, modes[m]);
		T[TL] = 0;
		struct json_object *o = json_tokener_parse_ex(tok, (char *)T, (int)TL + 1);
		printf("mode %d: %s end=%zu value=%s\n", modes[m], json_tokener_error_desc(json_tokener_get_error(tok)), json_tokener_get_parse_end(tok),
		       o ? json_object_to_json_string(o) : "null");
		if (m == 1 && json_tokener_get_error(tok) == json_tokener_success)
			bad++;
		if (m == 0 && json_tokener_get_error(tok) != json_tokener_success)
			bad++;
		json_object_put(o);
		json_tokener_free(tok);
	}
	return bad;
}
int main(int argc, char **argv)
{
	struct mc_harness h = {"c16", enumerate, describe, replay};
	return mc_main(argc, argv, &h);
}
