/* C20 - descriptor I/O is complete and exact under arbitrary short reads/writes and errors.
 * The in-memory descriptor seam makes every read()/write()/open() a choice point:
 * small documents: ALL compositions of transfer sizes and an error at every call;
 * large ones: all schedules with a bounded number of deviations from "transfer everything". */
#include "mc.h"
#include "json.h"
#include "json_util.h"
#include <errno.h>
#include <fcntl.h>
#include <stdlib.h>
#include <string.h>

#define MAXCALLS 40
static int choice[MAXCALLS], ncalls;
static int opts_at[MAXCALLS];  /* number of options the call had */
static int all_sizes;          /* 1: every size 1..n is an option (small documents) */
static int asked_log[MAXCALLS], answer_log[MAXCALLS];

static const char *cur_op = "?";
static int cur_doc, cur_flags, cur_depth;
static void describe(sb_t *o)
{
	sb_printf(o, "op=%s doc=%d flags=%d depth=%d answers=", cur_op, cur_doc, cur_flags, cur_depth);
	for (int i = 0; i < ncalls && i < MAXCALLS; i++)
		sb_printf(o, "%s%d/%d", i ? "," : "", answer_log[i], asked_log[i]);
}

/* option k of a call asking for n bytes -> answer (0 = everything, >0 = that many, <0 = -errno) */
static const int ERRS[3] = {EIO, EINTR, ENOSPC};
static int n_options(int is_write, size_t n)
{
	(void)is_write;
	if (n == 0)
		return 4; /* read at end of file: 0, or one of three errors */
	if (all_sizes)
		return (int)n + 3; /* n sizes (full first) + 3 errors */
	return 8;
}
static int option_answer(int is_write, size_t n, int k)
{
	(void)is_write;
	if (n == 0)
		return k == 0 ? 0 : -ERRS[k - 1];
	if (all_sizes)
	{
		if (k == 0)
			return 0;
		if (k < (int)n)
			return k; /* sizes 1..n-1 */
		return -ERRS[k - (int)n];
	}
	switch (k)
	{
	case 0: return 0;
	case 1: return 1;
	case 2: return n > 2 ? 2 : 1;
	case 3: return n / 2 ? (int)(n / 2) : 1;
	case 4: return n > 1 ? (int)n - 1 : 1;
	default: return -ERRS[k - 5];
	}
}
static int io_choice(int is_write, size_t asked)
{
	int i = ncalls++;
	if (i >= MAXCALLS)
		return 0;
	opts_at[i] = n_options(is_write, asked);
	int k = choice[i] < opts_at[i] ? choice[i] : 0;
	int a = option_answer(is_write, asked, k);
	asked_log[i] = (int)asked;
	answer_log[i] = a;
	return a;
}
static int had_error(void)
{
	for (int i = 0; i < ncalls && i < MAXCALLS; i++)
		if (answer_log[i] < 0)
			return 1;
	return 0;
}
/* advance the choice vector (deviation bounded); returns 0 when exhausted */
static int next_vector(int bound)
{
	int m = ncalls < MAXCALLS ? ncalls : MAXCALLS;
	for (int i = m - 1; i >= 0; i--)
	{
		if (choice[i] + 1 >= opts_at[i])
			continue;
		int dev = 0;
		for (int k = 0; k < i; k++)
			dev += choice[k] != 0;
		if (choice[i] == 0 && dev + 1 > bound)
			continue;
		choice[i]++;
		for (int k = i + 1; k < MAXCALLS; k++)
			choice[k] = 0;
		return 1;
	}
	return 0;
}

/* ---------- documents ---------- */
static const int SIZES[] = {2, 9, 12, 40, 4095, 4096, 4097, 9000, 12288, 20000, 70000};
#define NSIZES 11
static struct json_object *doc_of_size(int size, int flags, char **text_out)
{
	/* a string node whose serialization under `flags` has exactly `size` bytes (flags add nothing to a bare string) */
	(void)flags;
	int n = size - 2;
	char *s = malloc((size_t)n + 1);
	for (int i = 0; i < n; i++)
		s[i] = (char)('a' + i % 26);
	s[n] = 0;
	struct json_object *o = json_object_new_string_len(s, n);
	free(s);
	if (text_out)
		*text_out = strdup(json_object_to_json_string_ext(o, flags));
	return o;
}
static struct json_object *small_tree(void)
{
	return json_tokener_parse("{\"a\":[1,2.5,\"x\"],\"b\":null}");
}

/* "A retrievable message": the last-error text is a process-wide buffer, so a stale message from
 * an earlier failure would satisfy a plain non-NULL test.  Before each operation the buffer is
 * loaded with a known message through the public API (a refused NULL object, or - for the
 * operations where that is the case under test - a missing file); after a failure the message
 * must be present AND different from the one planted. */
static char planted[300];
static void plant_message(int which)
{
	if (which == 0)
		(void)json_object_to_fd(0, NULL, 0);
	else
		(void)json_object_from_file("planted-does-not-exist.json");
	const char *m = json_util_get_last_err();
	snprintf(planted, sizeof planted, "%s", m ? m : "");
}
static int fresh_message(void)
{
	const char *m = json_util_get_last_err();
	return m && *m && strcmp(m, planted) != 0;
}
static void check_clean(const char *what)
{
	if (vf_fd_open_count())
		mc_violation("descriptor-left-open", "%s: %d descriptor(s) still open", what, vf_fd_open_count());
	if (vf_live())
	{
		mc_violation("leak", "%s: %ld blocks live", what, vf_live());
		mc_restart_worker();
	}
}

static void explore_write(int doc, int flags, int to_file, int bound)
{
	cur_op = to_file ? "to_file_ext" : "to_fd";
	cur_doc = doc;
	cur_flags = flags;
	cur_depth = 0;
	memset(choice, 0, sizeof choice);
	ncalls = 0;
	if (!mc_case_begin())
		return;
	long runs = 0;
	do
	{
		runs++;
		char *text = NULL;
		struct json_object *o = doc < NSIZES ? doc_of_size(SIZES[doc], flags, &text) : small_tree();
		if (doc >= NSIZES)
			text = strdup(json_object_to_json_string_ext(o, flags));
		size_t tl = strlen(text);
		vf_fd_reset();
		ncalls = 0;
		plant_message(0);
		vf_io_choice = io_choice;
		int rc, fd = -1;
		errno = mc_errno_pre;
		if (to_file)
			rc = flags == JSON_C_TO_STRING_PLAIN ? json_object_to_file("out.json", o) /* the plain variant is the _ext one with PLAIN */
			                                     : json_object_to_file_ext("out.json", o, flags);
		else
		{
			fd = vf_fd_new_output();
			rc = json_object_to_fd(fd, o, flags);
		}
		vf_io_choice = NULL;
		size_t wn = 0;
		const unsigned char *w = to_file ? vf_fd_file_output("out.json", &wn) : vf_fd_output(fd, &wn);
		int err = had_error();
		if (!err)
		{
			if (rc != 0)
				mc_violation("write-fails-without-error", "%s returned %d although every write succeeded", cur_op, rc);
			else if (wn != tl || memcmp(w, text, tl))
			{
				size_t k = 0;
				while (k < wn && k < tl && w[k] == (unsigned char)text[k])
					k++;
				mc_violation("bytes-delivered-differ", "%zu bytes delivered, serialization has %zu; first difference at offset %zu", wn, tl, k);
			}
		}
		else
		{
			if (rc != -1)
				mc_violation("write-error-not-reported", "a write failed but %s returned %d", cur_op, rc);
			else if (!fresh_message())
				mc_violation("no-error-message", "%s failed without a retrievable message of its own", cur_op);
			if (w && (wn > tl || memcmp(w, text, wn)))
				mc_violation("bytes-delivered-differ", "before the error %zu bytes were delivered that are not a prefix of the serialization", wn);
		}
		mc_outcome(mc_hash(answer_log, sizeof(int) * (size_t)(ncalls < MAXCALLS ? ncalls : MAXCALLS), (uint64_t)rc + 5));
		if (fd >= 0)
			vf_close(fd);
		json_object_put(o);
		free(text);
		check_clean(cur_op); /* before the descriptor table is reset: a descriptor the library opened must be closed by now */
		vf_fd_reset();
	} while (next_vector(bound) && !mc_deadline());
	MC_COUNT("calls", runs);
	MC_COUNT("schedules", runs);
	char nm[64];
	snprintf(nm, sizeof nm, "w%d/%d/%d", doc, flags, to_file);
	mc_nontrivial(mc_hash_str(nm));
	mc_sample_current();
}

/* read side: texts */
static char *read_text(int doc, size_t *len)
{
	char *t;
	if (doc < NSIZES)
	{
		struct json_object *o = doc_of_size(SIZES[doc], 0, &t);
		json_object_put(o);
	}
	else if (doc == NSIZES)
		t = strdup("{\"a\":[1,2.5,\"x\"],\"b\":null}");
	else if (doc == NSIZES + 1)
		t = strdup("[[[[1]]]]");
	else if (doc == NSIZES + 2)
		t = strdup("{\"a\":tru");
	else if (doc == NSIZES + 3)
		t = strdup("12");
	else if (doc == NSIZES + 4)
		t = strdup("");
	else if (doc == NSIZES + 5)
		t = strdup("[[[1]]]"); /* innermost value enclosed by exactly 3 containers: refused at limit 3, accepted at 4 */
	else if (doc == NSIZES + 6)
		t = strdup("[1]");     /* refused at limit 1 */
	else
	{
		/* nested 35 deep: refused at the default limit 32, accepted at an explicit limit of 40 */
		t = malloc(80);
		memset(t, '[', 35);
		t[35] = '1';
		memset(t + 36, ']', 35);
		t[71] = 0;
	}
	*len = strlen(t);
	return t;
}
#define NREADDOCS (NSIZES + 8)
static sb_t dref, dgot;
static void explore_read(int doc, int depth, int from_file, int bound)
{
	cur_op = from_file ? "from_file" : depth >= 0 ? "from_fd_ex" : "from_fd";
	cur_doc = doc;
	cur_flags = 0;
	cur_depth = depth;
	memset(choice, 0, sizeof choice);
	ncalls = 0;
	if (!mc_case_begin())
		return;
	size_t tl;
	char *text = read_text(doc, &tl);
	/* reference: one parse_ex call on the same bytes with the same depth */
	struct json_tokener *tok = json_tokener_new_ex(depth >= 0 ? depth : JSON_TOKENER_DEFAULT_DEPTH);
	struct json_object *ref = tok ? json_tokener_parse_ex(tok, text, (int)tl) : NULL;
	sb_reset(&dref);
	vf_dump(ref, &dref, DUMP_SER);
	int ref_null = ref == NULL;
	json_object_put(ref);
	if (tok)
		json_tokener_free(tok);
	long runs = 0;
	do
	{
		runs++;
		vf_fd_reset();
		ncalls = 0;
		struct json_object *o;
		int fd = -1;
		if (from_file)
			vf_fd_set_file("in.json", text, tl);
		else
			fd = vf_fd_new_input(text, tl);
		plant_message(0);
		vf_io_choice = io_choice;
		errno = mc_errno_pre;
		o = from_file ? json_object_from_file("in.json") : depth >= 0 ? json_object_from_fd_ex(fd, depth) : json_object_from_fd(fd);
		vf_io_choice = NULL;
		int err = had_error();
		if (err)
		{
			if (o)
				mc_violation("read-error-not-reported", "a read failed but %s returned a value", cur_op);
			else if (!fresh_message())
				mc_violation("no-error-message", "%s failed without a retrievable message of its own", cur_op);
		}
		else
		{
			sb_reset(&dgot);
			vf_dump(o, &dgot, DUMP_SER);
			if ((o == NULL) != ref_null || strcmp(sb_str(&dgot), sb_str(&dref)))
				mc_violation("read-result-differs", "%s gives %.150s, one parse call on the same %zu bytes gives %.150s", cur_op, sb_str(&dgot), tl, sb_str(&dref));
			if (!o && !ref_null)
				;
			if (!o && !fresh_message())
				mc_violation("no-error-message", "%s returned NULL without a retrievable message of its own", cur_op);
		}
		mc_outcome(mc_hash(answer_log, sizeof(int) * (size_t)(ncalls < MAXCALLS ? ncalls : MAXCALLS), (uint64_t)(o != NULL) + 11));
		json_object_put(o);
		if (fd >= 0)
			vf_close(fd);
		check_clean(cur_op); /* before the descriptor table is reset: a descriptor the library opened must be closed by now */
		vf_fd_reset();
	} while (next_vector(bound) && !mc_deadline());
	free(text);
	MC_COUNT("calls", runs);
	MC_COUNT("schedules", runs);
	char nm[64];
	snprintf(nm, sizeof nm, "r%d/%d/%d", doc, depth, from_file);
	mc_nontrivial(mc_hash_str(nm));
	mc_sample_current();
}

static void enumerate(void)
{
	static const int flagsets[5] = {JSON_C_TO_STRING_PLAIN, JSON_C_TO_STRING_SPACED, JSON_C_TO_STRING_PRETTY | JSON_C_TO_STRING_PRETTY_TAB, JSON_C_TO_STRING_COLOR,
	                                JSON_C_TO_STRING_PRETTY | JSON_C_TO_STRING_SPACED | JSON_C_TO_STRING_COLOR | JSON_C_TO_STRING_NOSLASHESCAPE | JSON_C_TO_STRING_NOZERO};
	int bound = mc_tier ? 4 : 2;
	for (int doc = 0; doc <= NSIZES; doc++)
		for (int f = 0; f < 5; f++)
			for (int to_file = 0; to_file < 2; to_file++)
			{
				int small = doc < 3 && !(flagsets[f] & JSON_C_TO_STRING_COLOR); /* <= 12 bytes: all compositions (the colour escapes add 11 bytes) */
				all_sizes = small;
				explore_write(doc, flagsets[f], to_file, small ? 99 : (doc >= 8 && doc < NSIZES && bound > 2) ? (doc == 10 ? 2 : 3) : bound);
			}
	for (int doc = 0; doc < NREADDOCS; doc++)
		for (int variant = 0; variant < 8; variant++)
		{
			int small = doc < 3 || (doc >= NSIZES + 1 && doc != NSIZES + 7); /* <= 12 bytes: all compositions; the 71-byte nest is bounded */
			all_sizes = small;
			if (variant >= 4 && doc < NSIZES)
				continue; /* the extra depth limits (1, 4, 0) on the small documents only */
			int depth = variant == 1 ? 3 : variant == 2 ? 32 : variant == 4 ? 1 : variant == 5 ? 4 : variant == 6 ? 0 : variant == 7 ? 40 : -1;
			explore_read(doc, depth, variant == 3, small ? 99 : (doc >= 8 && doc < NSIZES && bound > 2) ? (doc == 10 ? 2 : 3) : bound);
		}
	/* argument errors and unopenable files */
	cur_op = "argument-errors";
	if (mc_case_begin())
	{
		vf_fd_reset();
		int fd = vf_fd_new_output();
		plant_message(1);
		if (json_object_to_fd(fd, NULL, 0) != -1 || !fresh_message())
			mc_violation("null-object-accepted", "json_object_to_fd(NULL object) did not fail with a message of its own");
		plant_message(1);
		if (json_object_to_file_ext("x.json", NULL, 0) != -1 || !fresh_message())
			mc_violation("null-object-accepted", "json_object_to_file_ext(NULL object) did not fail with a message of its own");
		vf_close(fd);
		vf_fd_reset();
		plant_message(0);
		if (json_object_from_file("does-not-exist.json") != NULL || !fresh_message())
			mc_violation("unopenable-file", "json_object_from_file on a missing file did not fail with a message of its own");
		vf_fds.open_fail_errno = EACCES;
		struct json_object *o = json_object_new_int(1);
		plant_message(0);
		vf_fds.open_fail_errno = EACCES;
		if (json_object_to_file_ext("denied.json", o, 0) != -1 || !fresh_message())
			mc_violation("unopenable-file", "json_object_to_file_ext with a failing open() did not fail with a message of its own");
		if (json_object_to_file("denied.json", o) != -1)
			mc_violation("unopenable-file", "json_object_to_file with a failing open() did not fail");
		json_object_put(o);
		check_clean("argument errors");
		vf_fd_reset();
	}
}
static int replay(const char *desc)
{
	(void)desc;
	fprintf(stderr, "c20: schedules are enumerated per (operation, document); replay re-runs the exploration\n");
	enumerate();
	return (int)mc_violations();
}
int main(int argc, char **argv)
{
	struct mc_harness h = {"c20", enumerate, describe, replay};
	return mc_main(argc, argv, &h);
}
