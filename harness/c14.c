/* C14 - parse/serialize are locale independent and leave the caller's locale untouched.
 * Locale installations x number texts / double trees x every outcome class of the parser.
 * The comma-decimal locale is synthesized offline by bin/setup (LOCPATH). */
#include "mc.h"
#include "json.h"
#include <errno.h>
#include <locale.h>
#include <math.h>
#include <stdlib.h>
#include <string.h>

static int have_comma;
static locale_t loc_comma, loc_c;
static const char *cfgname[] = {"global C", "global comma", "global C + thread comma", "global comma + thread C", "global comma + thread comma", "global C + thread C"};
#define NCFG 6
static int cur_cfg;
static char cur_text[256];
static const char *cur_what = "parse";
static void describe(sb_t *o)
{
	sb_printf(o, "what=%s config=\"%s\" text=", cur_what, cfgname[cur_cfg]);
	sb_hex(o, cur_text, strlen(cur_text));
	sb_printf(o, " ascii=%s", cur_text);
}
static void install(int cfg)
{
	uselocale(LC_GLOBAL_LOCALE);
	int gcomma = cfg == 1 || cfg == 3 || cfg == 4;
	if (!setlocale(LC_ALL, gcomma ? "xx_XX" : "C"))
		abort();
	if (cfg == 2 || cfg == 4)
		uselocale(loc_comma);
	else if (cfg == 3 || cfg == 5)
		uselocale(loc_c);
	cur_cfg = cfg;
}
static int cfg_available(int cfg)
{
	return have_comma || cfg == 0 || cfg == 5;
}

struct probe
{
	locale_t handle;
	char name[64];
	char sep;
	long locale_objs;
};
static void take_probe(struct probe *p)
{
	char b[32];
	p->handle = uselocale((locale_t)0);
	const char *n = setlocale(LC_NUMERIC, NULL);
	snprintf(p->name, sizeof p->name, "%s", n ? n : "(null)");
	snprintf(b, sizeof b, "%.1f", 1.5);
	p->sep = b[1];
	p->locale_objs = vf_locale_live();
}
static void compare_probe(const struct probe *a, const char *when)
{
	struct probe b;
	take_probe(&b);
	if (a->handle != b.handle)
		mc_violation("thread-locale-changed", "%s: uselocale(NULL) was %p before the call and is %p after", when, (void *)a->handle, (void *)b.handle);
	if (strcmp(a->name, b.name))
		mc_violation("global-locale-changed", "%s: setlocale(LC_NUMERIC,NULL) was %s before and is %s after", when, a->name, b.name);
	if (a->sep != b.sep)
		mc_violation("decimal-separator-changed", "%s: printf decimal separator was '%c' before and is '%c' after", when, a->sep, b.sep);
	if (a->locale_objs != b.locale_objs)
	{
		mc_violation("locale-object-leak", "%s: %ld locale object(s) created by the call were not released", when, b.locale_objs - a->locale_objs);
		mc_restart_worker();
	}
}

static sb_t out;
/* parses a NUL-terminated text; result description into `out` */
static void do_parse(const char *text, int flags, int len_override)
{
	struct json_tokener *tok = json_tokener_new();
	json_tokener_set_flags(tok, flags);
	struct probe p;
	take_probe(&p);
	MC_COUNT("calls", 1);
	errno = mc_errno_pre;
	struct json_object *o = json_tokener_parse_ex(tok, text, len_override ? len_override : (int)strlen(text) + 1);
	compare_probe(&p, "json_tokener_parse_ex");
	sb_reset(&out);
	sb_printf(&out, "%s@%zu ", json_tokener_error_desc(json_tokener_get_error(tok)), json_tokener_get_parse_end(tok));
	vf_dump(o, &out, 0);
	if (o)
	{
		sb_putc(&out, ' ');
		const char *t = json_object_to_json_string_ext(o, JSON_C_TO_STRING_PLAIN);
		sb_puts(&out, t ? t : "(null)");
	}
	json_object_put(o);
	json_tokener_free(tok);
}
static void do_serialize(double d)
{
	struct json_object *a = json_object_new_array();
	json_object_array_add(a, json_object_new_double(d));
	json_object_array_add(a, json_object_new_double(-d));
	struct json_object *ob = json_object_new_object();
	json_object_object_add(ob, "d", json_object_new_double(d));
	json_object_array_add(a, ob);
	sb_reset(&out);
	static const int fl[] = {JSON_C_TO_STRING_PLAIN, JSON_C_TO_STRING_NOZERO, JSON_C_TO_STRING_PRETTY | JSON_C_TO_STRING_SPACED};
	struct probe p;
	take_probe(&p);
	for (int i = 0; i < 3; i++)
	{
		MC_COUNT("calls", 1);
		errno = mc_errno_pre;
		const char *t = json_object_to_json_string_ext(a, fl[i]);
		sb_puts(&out, t ? t : "(null)");
		sb_putc(&out, '|');
	}
	/* custom double formats (per thread, global, per node), also ones whose output does not start
	 * with a digit: padded, signed, with a literal prefix */
	static const char *const fmts[] = {"%.3f", "%8.3f", "% .2f", "%+.1e", "x%0.3fy", "%-9.2f"};
	for (unsigned f = 0; f < sizeof fmts / sizeof fmts[0]; f++)
	{
		int how = (int)(f % 3);
		struct json_object *pn = NULL;
		if (how == 0)
			json_c_set_serialization_double_format(fmts[f], JSON_C_OPTION_THREAD);
		else if (how == 1)
			json_c_set_serialization_double_format(fmts[f], JSON_C_OPTION_GLOBAL);
		else
		{
			pn = json_object_new_double(d);
			json_object_set_serializer(pn, json_object_double_to_json_string, (void *)fmts[f], NULL);
		}
		MC_COUNT("calls", 1);
		errno = mc_errno_pre;
		const char *t = json_object_to_json_string_ext(pn ? pn : a, JSON_C_TO_STRING_PLAIN);
		sb_puts(&out, t ? t : "(null)");
		sb_putc(&out, '|');
		json_c_set_serialization_double_format(NULL, JSON_C_OPTION_THREAD);
		json_c_set_serialization_double_format(NULL, JSON_C_OPTION_GLOBAL);
		if (pn)
			json_object_put(pn);
	}
	compare_probe(&p, "json_object_to_json_string_ext");
	json_object_put(a);
}

/* ---------- inputs ---------- */
#define MAXIN 1200000
static char (*INTXT)[24];
static int nin;
static uint64_t *BASE; /* hash of the C-locale result per input */
static double *DBL;
static int ndbl;
static uint64_t *DBASE;

static void gen_inputs(void)
{
	static const char alpha[] = "-019.eE+";
	int maxlen = mc_tier ? 7 : 5;
	INTXT = malloc(sizeof(*INTXT) * MAXIN);
	char s[16];
	for (int len = 1; len <= maxlen; len++)
	{
		uint64_t total = 1;
		for (int i = 0; i < len; i++)
			total *= 8;
		for (uint64_t x = 0; x < total; x++)
		{
			uint64_t y = x;
			for (int i = 0; i < len; i++)
			{
				s[i] = alpha[y & 7];
				y >>= 3;
			}
			s[len] = 0;
			if (!(s[0] == '-' || (s[0] >= '0' && s[0] <= '9')))
				continue;
			va_reset();
			struct rr_result rr;
			rr_parse((unsigned char *)s, (size_t)len, NULL, &rr);
			if (rr.status != RR_OK || nin + 3 >= MAXIN)
				continue;
			/* only non-integers exercise the locale, but integers ride along cheaply in containers */
			if (!strpbrk(s, ".eE") && len > 2)
				continue;
			snprintf(INTXT[nin++], 24, "%s", s);
			snprintf(INTXT[nin++], 24, "[%s,%s]", s, s);
			snprintf(INTXT[nin++], 24, "{\"k\":%s}", s);
		}
	}
	static const char *extra[] = {"1,5", "[1,5]", "1.5", "0.1", "1e-7", "123456.789e3", "1.7976931348623157e308", "5e-324", "-0.0", "[1.5,2.5,\"1,5\"]", "{\"a\":1.5,\"b\":[2.25]}",
	                              "NaN", "-Infinity", "1.5e", "1.", "[1.5", "\"1.5\"", "1.5 2.5", "1.5x"};
	for (unsigned i = 0; i < sizeof extra / sizeof extra[0]; i++)
		snprintf(INTXT[nin++], 24, "%s", extra[i]);
	BASE = calloc((size_t)nin, sizeof *BASE);
	/* doubles */
	DBL = malloc(sizeof(double) * 60000);
	int mmax = mc_tier ? 999 : 99, estep = mc_tier ? 3 : 7;
	for (int e = -330; e <= 310; e += estep)
		for (int m = 1; m <= mmax; m += (m < 20 ? 1 : 7))
		{
			char t[32];
			snprintf(t, sizeof t, "%de%d", m, e);
			double d = strtod(t, NULL);
			if (d == d && !isinf(d) && ndbl < 60000)
				DBL[ndbl++] = d;
		}
	for (int k = -1074; k <= 1023; k += 13)
		DBL[ndbl++] = ldexp(1.0, k);
	DBL[ndbl++] = 0.0;
	DBL[ndbl++] = 1.5;
	DBL[ndbl++] = 1e21;
	DBL[ndbl++] = 123456789.125;
	DBASE = calloc((size_t)ndbl, sizeof *DBASE);
}

/* one text per outcome class of the parser (every return path of parse_ex) */
static const char *OUTCOMES[] = {
    "1.5",           /* success */
    "[1.5",          /* continue (NUL reached inside a container -> eof error with NUL; fed without NUL below) */
    "[[[1.5]]]",     /* success nested */
    "{\"a\":1.5",    /* unexpected end of data */
    "]",             /* unexpected character */
    "nulx",          /* null expected */
    "trux",          /* boolean expected */
    "[1.5.5]",       /* number expected */
    "[1.5 2]",       /* array separator expected */
    "{1.5:2}",       /* quoted property name expected */
    "{\"a\" 1.5}",   /* name separator expected */
    "{\"a\":1.5 \"b\":2}", /* object value separator */
    "\"\\q1.5\"",    /* invalid string sequence */
    "/1.5",          /* expected comment */
    "\"\xff\"",      /* invalid utf-8 (with VALIDATE_UTF8) */
    "[1.5]x",        /* trailing (strict) */
};
#define NOUT (int)(sizeof OUTCOMES / sizeof OUTCOMES[0])

static void enumerate(void)
{
	have_comma = setlocale(LC_ALL, "xx_XX") != NULL;
	setlocale(LC_ALL, "C");
	if (have_comma)
	{
		loc_comma = newlocale(LC_ALL_MASK, "xx_XX", (locale_t)0);
		char b[16];
		locale_t old = uselocale(loc_comma);
		snprintf(b, sizeof b, "%.1f", 1.5);
		uselocale(old);
		if (!loc_comma || b[1] != ',')
			have_comma = 0;
	}
	loc_c = newlocale(LC_ALL_MASK, "C", (locale_t)0);
	if (!have_comma)
	{
		mc_note("the synthesized comma-decimal locale is not available (LOCPATH): only C-locale configurations are explored");
		mc_not_exhaustive("comma-decimal locale unavailable");
	}
	MC_COUNT("comma_locale_available", mc_shard == 0 ? have_comma : 0);
	gen_inputs();
	for (int cfg = 0; cfg < NCFG; cfg++)
	{
		if (!cfg_available(cfg))
			continue;
		install(cfg);
		cur_what = "parse";
		for (int i = 0; i < nin; i++)
		{
			if (!mc_mine((uint64_t)i))
				continue;
			snprintf(cur_text, sizeof cur_text, "%s", INTXT[i]);
			if (cfg && !mc_case_begin_all())
				continue;
			do_parse(INTXT[i], 0, 0);
			uint64_t h = mc_hash(out.p, out.n, 1);
			if (cfg == 0)
			{
				BASE[i] = h;
				mc_nontrivial(mc_hash_str(INTXT[i]));
			}
			else if (h != BASE[i])
			{
				char got[300];
				snprintf(got, sizeof got, "%s", sb_str(&out));
				install(0);
				do_parse(INTXT[i], 0, 0);
				mc_violation("parse-depends-on-locale", "under \"%s\": %.200s; in the C locale: %.200s", cfgname[cfg], got, sb_str(&out));
				install(cfg);
			}
			mc_outcome(h);
			if (cfg)
				mc_sample_current();
		}
		cur_what = "serialize";
		for (int i = 0; i < ndbl; i++)
		{
			if (!mc_mine((uint64_t)i))
				continue;
			snprintf(cur_text, sizeof cur_text, "%.17g", DBL[i]);
			/* the description itself must not depend on the locale under test */
			for (char *q = cur_text; *q; q++)
				if (*q == ',')
					*q = '.';
			if (cfg && !mc_case_begin_all())
				continue;
			do_serialize(DBL[i]);
			uint64_t h = mc_hash(out.p, out.n, 2);
			if (cfg == 0)
				DBASE[i] = h;
			else if (h != DBASE[i])
			{
				char got[300];
				snprintf(got, sizeof got, "%s", sb_str(&out));
				install(0);
				do_serialize(DBL[i]);
				mc_violation("serialize-depends-on-locale", "under \"%s\": %.200s; in the C locale: %.200s", cfgname[cfg], got, sb_str(&out));
				install(cfg);
			}
		}
		/* every return path of parse_ex leaves the locale as found and frees its locale object */
		cur_what = "outcome-class";
		if (mc_shard == 0)
			for (int k = 0; k < NOUT; k++)
				for (int flags = 0; flags < 8; flags++)
				{
					snprintf(cur_text, sizeof cur_text, "%s", OUTCOMES[k]);
					if (!mc_case_begin_all())
						continue;
					do_parse(OUTCOMES[k], flags, 0);
					do_parse(OUTCOMES[k], flags, (int)strlen(OUTCOMES[k])); /* without the NUL: continue for unfinished texts */
					do_parse(OUTCOMES[k], flags, -2);                       /* early size error */
					/* the two locale-object creations fail in turn */
					for (int f = 1; f <= 2; f++)
					{
						struct json_tokener *tok = json_tokener_new();
						struct probe p;
						take_probe(&p);
						long c0 = vf_alloc_calls();
						vf_fail_plan(c0 + f, 0);
						errno = mc_errno_pre;
						struct json_object *o = json_tokener_parse_ex(tok, OUTCOMES[k], -1);
						int fired = vf_fail_fired();
						vf_fail_plan(0, 0);
						compare_probe(&p, f == 1 ? "parse_ex with duplocale failing" : "parse_ex with newlocale failing");
						if (fired && (o || json_tokener_get_error(tok) != json_tokener_error_memory))
							mc_violation("locale-allocation-failure-channel", "locale object creation failed, parse_ex returned %p with status %s", (void *)o,
							             json_tokener_error_desc(json_tokener_get_error(tok)));
						json_object_put(o);
						json_tokener_free(tok);
						MC_COUNT("calls", 1);
					}
				}
	}
	install(0);
	if (vf_live())
		mc_violation("leak", "%ld blocks live at the end", vf_live());
}
static int replay(const char *desc)
{
	(void)desc;
	enumerate();
	return (int)mc_violations();
}
int main(int argc, char **argv)
{
	struct mc_harness h = {"c14", enumerate, describe, replay};
	return mc_main(argc, argv, &h);
}
