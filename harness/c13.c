/* C13 - JSON Patch application follows RFC 6902; arbitrary patch documents are safe.
 * (a) all well-formed operation sequences up to a length over menus generated from the
 *     evolving document; (b) the full product of malformed one/two-element patches.
 * Oracle: RFC 6902 interpreter over the value model; patch document unchanged;
 * independence probe; sanitizer build with crash isolation. */
#include "mc.h"
#include "json.h"
#include <errno.h>
#include <stdlib.h>
#include <string.h>

static V *cur_doc, *cur_patch;
static int cur_inplace;
static void describe(sb_t *o)
{
	static char b1[8192], b2[8192];
	sb_t d1, d2;
	sb_init_fixed(&d1, b1, sizeof b1);
	sb_init_fixed(&d2, b2, sizeof b2);
	if (cur_doc)
		v_print(cur_doc, &d1);
	if (cur_patch)
		v_print(cur_patch, &d2);
	sb_printf(o, "inplace=%d doc=", cur_inplace);
	sb_hex(o, d1.p, d1.n);
	sb_puts(o, " patch=");
	sb_hex(o, d2.p, d2.n);
	sb_printf(o, " DOC=%s PATCH=%s", b1, b2);
}

/* ---------- RFC 6901 helpers over V ---------- */
static int unescape_token(const char *t, size_t n, char *out, size_t *outn)
{
	size_t k = 0;
	for (size_t i = 0; i < n; i++)
	{
		if (t[i] == '~' && i + 1 < n && t[i + 1] == '1')
		{
			out[k++] = '/';
			i++;
		}
		else if (t[i] == '~' && i + 1 < n && t[i + 1] == '0')
		{
			out[k++] = '~';
			i++;
		}
		else if (t[i] == '~')
			return 0;
		else
			out[k++] = t[i];
	}
	out[k] = 0;
	*outn = k;
	return 1;
}
static int canonical_index(const char *t, size_t n, size_t *idx)
{
	if (n == 0 || n > 9 || (t[0] == '0' && n > 1))
		return 0;
	size_t v = 0;
	for (size_t i = 0; i < n; i++)
	{
		if (t[i] < '0' || t[i] > '9')
			return 0;
		v = v * 10 + (size_t)(t[i] - '0');
	}
	*idx = v;
	return 1;
}
/* resolves ptr[0..plen): returns node and (optionally) its parent and slot */
static V *resolve(V *root, const char *ptr, size_t plen, V **parent, size_t *slot)
{
	V *cur = root;
	if (parent)
		*parent = NULL;
	if (plen == 0)
		return cur;
	if (ptr[0] != '/')
		return NULL;
	size_t i = 1;
	for (;;)
	{
		size_t s = i;
		while (i < plen && ptr[i] != '/')
			i++;
		size_t tl = i - s, m;
		if (cur->k == V_OBJ)
		{
			char key[128];
			size_t kl;
			if (tl >= sizeof key || !unescape_token(ptr + s, tl, key, &kl))
				return NULL;
			for (m = 0; m < cur->n; m++)
				if (cur->klens[m] == kl && !memcmp(cur->keys[m], key, kl))
					break;
			if (m == cur->n)
				return NULL;
		}
		else if (cur->k == V_ARR)
		{
			if (!canonical_index(ptr + s, tl, &m) || m >= cur->n)
				return NULL;
		}
		else
			return NULL;
		if (parent)
			*parent = cur;
		if (slot)
			*slot = m;
		cur = cur->items[m];
		if (i >= plen)
			return cur;
		i++;
	}
}
static void v_remove_slot(V *p, size_t m)
{
	for (size_t i = m; i + 1 < p->n; i++)
	{
		p->items[i] = p->items[i + 1];
		if (p->k == V_OBJ)
		{
			p->keys[i] = p->keys[i + 1];
			p->klens[i] = p->klens[i + 1];
		}
	}
	p->n--;
}
/* RFC 6902 add: returns 0 ok / -1 error; *root may be replaced */
static int ref_add(V **root, const char *path, V *val)
{
	size_t pl = strlen(path);
	if (pl == 0)
	{
		*root = val;
		return 0;
	}
	if (path[0] != '/')
		return -1;
	const char *last = strrchr(path, '/');
	V *parent = resolve(*root, path, (size_t)(last - path), NULL, NULL);
	if (!parent)
		return -1;
	const char *tok = last + 1;
	size_t tl = strlen(tok);
	if (parent->k == V_OBJ)
	{
		char key[128];
		size_t kl;
		if (!unescape_token(tok, tl, key, &kl))
			return -2; /* unspecified */
		v_obj_put(parent, key, kl, val);
		return 0;
	}
	if (parent->k == V_ARR)
	{
		size_t idx;
		if (tl == 1 && tok[0] == '-')
			idx = parent->n;
		else if (!canonical_index(tok, tl, &idx) || idx > parent->n)
			return -1;
		v_arr_push(parent, val);
		for (size_t i = parent->n - 1; i > idx; i--)
			parent->items[i] = parent->items[i - 1];
		parent->items[idx] = val;
		return 0;
	}
	return -1;
}
static int is_proper_prefix(const char *from, const char *path)
{
	size_t fl = strlen(from);
	return strlen(path) > fl && !strncmp(from, path, fl) && path[fl] == '/';
}
static const V *obj_member(const V *o, const char *name)
{
	if (!o || o->k != V_OBJ)
		return NULL;
	for (size_t i = 0; i < o->n; i++)
		if (!strcmp((const char *)o->keys[i], name))
			return o->items[i];
	return NULL;
}
static int has_member(const V *o, const char *name)
{
	if (!o || o->k != V_OBJ)
		return 0;
	for (size_t i = 0; i < o->n; i++)
		if (!strcmp((const char *)o->keys[i], name))
			return 1;
	return 0;
}
static int has_invalid_escape(const char *p)
{
	for (; *p; p++)
		if (*p == '~' && p[1] != '0' && p[1] != '1')
			return 1;
	return 0;
}
/* applies one operation; 0 ok, -1 must fail, -2 unspecified by the statement */
static int ref_op(V **root, const V *op)
{
	if (!op || op->k != V_OBJ)
		return -1;
	const V *jop = obj_member(op, "op"), *jpath = obj_member(op, "path");
	if (!has_member(op, "op") || !has_member(op, "path") || !jop || jop->k != V_STR || !jpath || jpath->k != V_STR)
		return -1;
	const char *name = (const char *)jop->s, *path = (const char *)jpath->s;
	if (has_invalid_escape(path))
		return -2;
	if (!strcmp(name, "add") || !strcmp(name, "replace") || !strcmp(name, "test"))
	{
		if (!has_member(op, "value"))
			return -1;
		const V *val = obj_member(op, "value");
		if (!strcmp(name, "add"))
			return ref_add(root, path, v_clone(val));
		V *parent;
		size_t slot;
		V *t = resolve(*root, path, strlen(path), &parent, &slot);
		if (!t)
			return -1;
		if (!strcmp(name, "test"))
			return v_equal(t, val) ? 0 : -1;
		if (!parent)
			*root = v_clone(val);
		else
			parent->items[slot] = v_clone(val);
		return 0;
	}
	if (!strcmp(name, "remove"))
	{
		V *parent;
		size_t slot;
		V *t = resolve(*root, path, strlen(path), &parent, &slot);
		if (!t)
			return -1;
		if (!parent)
			return -2; /* removing the whole document: result undefined */
		v_remove_slot(parent, slot);
		return 0;
	}
	if (!strcmp(name, "move") || !strcmp(name, "copy"))
	{
		const V *jfrom = obj_member(op, "from");
		if (!has_member(op, "from") || !jfrom || jfrom->k != V_STR)
			return -1;
		const char *from = (const char *)jfrom->s;
		if (has_invalid_escape(from))
			return -2;
		V *parent;
		size_t slot;
		V *t = resolve(*root, from, strlen(from), &parent, &slot);
		if (!t)
			return -1;
		if (!strcmp(name, "copy"))
			return ref_add(root, path, v_clone(t));
		if (is_proper_prefix(from, path))
			return -1;
		if (!strcmp(from, path))
			return 0;
		if (!parent)
			return -1; /* moving the root somewhere else: it is a proper prefix of everything (handled), or path=="" (same) */
		/* remove then add; if the add fails the whole operation fails (document state then unspecified) */
		v_remove_slot(parent, slot);
		return ref_add(root, path, t);
	}
	return -1;
}
/* whole patch: returns 0 and *out, or -1 with *fail_idx, or -2 unspecified */
static int ref_apply(const V *doc, const V *patch, V **out, size_t *fail_idx)
{
	if (!patch || patch->k != V_ARR)
	{
		*fail_idx = (size_t)-1;
		return -1;
	}
	V *root = v_clone(doc);
	for (size_t i = 0; i < patch->n; i++)
	{
		/* a document that is JSON null is a NULL json_object, which the API treats as "no
		 * object" (EINVAL): operating on it is outside what the statement fixes */
		if (root->k == V_NULL)
		{
			*fail_idx = i;
			return -2;
		}
		int rc = ref_op(&root, patch->items[i]);
		if (rc)
		{
			*fail_idx = i;
			return rc;
		}
	}
	*out = root;
	return 0;
}

/* ---------- one application against the real code ---------- */
static sb_t d_patch0, d_patch1, d_got, d_exp, d_src0, d_src1;
static void mutate(struct json_object *n)
{
	switch (json_object_get_type(n))
	{
	case json_type_boolean: json_object_set_boolean(n, !json_object_get_boolean(n)); break;
	case json_type_int: json_object_set_int64(n, 4242); break;
	case json_type_double: json_object_set_double(n, 123.25); break;
	case json_type_string: json_object_set_string(n, "mutated-contents-longer-than-inline"); break;
	case json_type_array: json_object_array_add(n, json_object_new_int(99)); break;
	case json_type_object: json_object_object_add(n, "zz", json_object_new_int(99)); break;
	default: break;
	}
}
static const char *classify(const V *patch, size_t idx, int kind)
{
	/* kind: 0 = json-c fails where RFC succeeds, 1 = json-c succeeds where RFC fails, 2 = result differs */
	static char sig[96];
	const char *opn = "?";
	if (patch && patch->k == V_ARR && idx < patch->n)
	{
		const V *jop = obj_member(patch->items[idx], "op");
		if (jop && jop->k == V_STR)
			opn = (const char *)jop->s;
	}
	snprintf(sig, sizeof sig, "%s:%s", kind == 0 ? "rejects-valid" : kind == 1 ? "accepts-invalid" : "result-differs", opn);
	return sig;
}
static void apply_case(V *doc, V *patch, int inplace)
{
	cur_doc = doc;
	cur_patch = patch;
	cur_inplace = inplace;
	if (!mc_case_begin())
		return;
	long live0 = vf_live();
	V *expect = NULL;
	size_t fail_idx = 0;
	va_mark_t mark = va_mark();
	int want = ref_apply(doc, patch, &expect, &fail_idx);
	struct json_object *jdoc = v_build(doc), *jpatch = v_build(patch), *base = NULL;
	sb_reset(&d_patch0);
	vf_dump(jpatch, &d_patch0, 0);
	struct json_patch_error perr;
	memset(&perr, 0, sizeof perr);
	int rc;
	MC_COUNT("calls", 1);
	mc_phase = "json_patch_apply";
	if (inplace)
	{
		base = jdoc;
		jdoc = NULL;
		errno = mc_errno_pre;
		rc = json_patch_apply(NULL, jpatch, &base, &perr);
	}
	else
	{
		errno = mc_errno_pre;
		rc = json_patch_apply(jdoc, jpatch, &base, &perr);
	}
	mc_phase = "after-apply";
	sb_reset(&d_patch1);
	vf_dump(jpatch, &d_patch1, 0);
	if (strcmp(sb_str(&d_patch0), sb_str(&d_patch1)))
		mc_violation("patch-document-modified", "the patch document changed during application: %.200s -> %.200s", sb_str(&d_patch0), sb_str(&d_patch1));
	if (want == -2)
		MC_COUNT("unspecified_cases", 1);
	else if (want == 0)
	{
		if (rc != 0)
			mc_violation(classify(patch, perr.patch_failure_idx, 0), "RFC 6902 evaluation succeeds; json_patch_apply returned %d at operation %zu (%s)", rc, perr.patch_failure_idx,
			             perr.errmsg ? perr.errmsg : "");
		else
		{
			sb_reset(&d_got);
			sb_reset(&d_exp);
			vf_dump(base, &d_got, 0);
			v_dump(expect, &d_exp, 0);
			if (strcmp(sb_str(&d_got), sb_str(&d_exp)))
				mc_violation(classify(patch, patch->n - 1, 2), "result %.250s, RFC 6902 gives %.250s", sb_str(&d_got), sb_str(&d_exp));
			else if (patch->n)
			{
				/* independence probe on the last operation when it is an add or a copy */
				const V *lop = patch->items[patch->n - 1];
				const V *jop = obj_member(lop, "op"), *jpath = obj_member(lop, "path");
				int is_add = !strcmp((const char *)jop->s, "add"), is_copy = !strcmp((const char *)jop->s, "copy");
				const char *path = (const char *)jpath->s;
				size_t pl = strlen(path);
				if ((is_add || is_copy) && !(pl >= 2 && !strcmp(path + pl - 2, "/-")))
				{
					struct json_object *dest = NULL, *src = NULL;
					const char *from = is_copy ? (const char *)obj_member(lop, "from")->s : NULL;
					if (json_pointer_get(base, path, &dest) == 0 && dest)
					{
						int have_src = 0;
						/* after an insertion the source may have shifted; only probe when it still resolves in the
						 * reference result to a value equal to the destination */
						if (is_copy)
						{
							V *rs = resolve(expect, from, strlen(from), NULL, NULL), *rd = resolve(expect, path, pl, NULL, NULL);
							if (rs && rd && rs != rd && v_equal(rs, rd) && !is_proper_prefix(from, path) && !is_proper_prefix(path, from) &&
							    json_pointer_get(base, from, &src) == 0 && src)
							{
								have_src = 1;
								sb_reset(&d_src0);
								vf_dump(src, &d_src0, 0);
							}
						}
						mutate(dest);
						sb_reset(&d_patch1);
						vf_dump(jpatch, &d_patch1, 0);
						if (strcmp(sb_str(&d_patch0), sb_str(&d_patch1)))
							mc_violation("added-value-shared-with-patch", "mutating the value at %s changed the patch document: %.200s", path, sb_str(&d_patch1));
						if (have_src)
						{
							sb_reset(&d_src1);
							vf_dump(src, &d_src1, 0);
							if (strcmp(sb_str(&d_src0), sb_str(&d_src1)))
								mc_violation("copied-value-shared-with-source", "mutating the copy at %s changed the source at %s: %.150s -> %.150s", path, from, sb_str(&d_src0),
								             sb_str(&d_src1));
						}
						MC_COUNT("independence_probes", 1);
					}
				}
			}
		}
	}
	else
	{
		if (rc == 0)
		{
			sb_reset(&d_got);
			vf_dump(base, &d_got, 0);
			mc_violation(classify(patch, fail_idx, 1), "RFC 6902 fails at operation %zu; json_patch_apply returned 0 with result %.250s", fail_idx, sb_str(&d_got));
		}
		else if (fail_idx != (size_t)-1 && perr.patch_failure_idx != fail_idx)
			mc_violation("wrong-failure-index", "RFC 6902 fails first at operation %zu; json_patch_apply reports %zu", fail_idx, perr.patch_failure_idx);
	}
	mc_outcome(mc_hash(d_got.p ? d_got.p : "", want == 0 && rc == 0 ? d_got.n : 0, (uint64_t)(rc + 2) * 7 + (uint64_t)(want + 2)));
	mc_phase = "release";
	json_object_put(base);
	json_object_put(jdoc);
	json_object_put(jpatch);
	mc_phase = "";
	if (vf_live() != live0)
	{
		mc_violation(rc == 0 ? "leak" : "leak-after-failed-patch", "%ld blocks live after releasing document, result and patch (rc=%d)", vf_live() - live0, rc);
		mc_restart_worker();
	}
	{
		sb_t d = {0};
		v_dump(patch, &d, 0);
		if (patch && patch->k == V_ARR && patch->n)
			mc_nontrivial(mc_hash(d.p, d.n, (uint64_t)inplace));
		sb_free(&d);
	}
	mc_sample_current();
	va_release(mark);
}

/* ---------- (a) operation menus ---------- */
static V *mkop(const char *op, const char *path, const char *from, V *value, int has_value)
{
	V *o = v_obj(0);
	v_obj_put(o, "op", 2, v_strz(op));
	v_obj_put(o, "path", 4, v_strz(path));
	if (from)
		v_obj_put(o, "from", 4, v_strz(from));
	if (has_value)
		v_obj_put(o, "value", 5, value);
	return o;
}
static void escape_key(const unsigned char *k, size_t kl, sb_t *out)
{
	for (size_t i = 0; i < kl; i++)
	{
		if (k[i] == '~')
			sb_puts(out, "~0");
		else if (k[i] == '/')
			sb_puts(out, "~1");
		else
			sb_putc(out, (char)k[i]);
	}
}
#define MAXPTR 96
struct ptrs
{
	char p[MAXPTR][48];
	int n, n_nodes;
};
static void all_pointers(V *v, sb_t *prefix, struct ptrs *out)
{
	if (out->n < MAXPTR)
		snprintf(out->p[out->n++], 48, "%s", sb_str(prefix));
	size_t keep = prefix->n;
	if (v->k != V_ARR && v->k != V_OBJ)
		return;
	for (size_t i = 0; i < v->n; i++)
	{
		if (v->k == V_ARR)
			sb_printf(prefix, "/%zu", i);
		else
		{
			sb_putc(prefix, '/');
			escape_key(v->keys[i], v->klens[i], prefix);
		}
		all_pointers(v->items[i], prefix, out);
		prefix->n = keep;
		prefix->p[keep] = 0;
	}
}
static void beyond_pointers(V *v, sb_t *prefix, struct ptrs *out)
{
	size_t keep = prefix->n;
	if (v->k == V_ARR)
	{
		const char *ext[3];
		char a[24], b[24];
		snprintf(a, sizeof a, "/%zu", v->n);
		snprintf(b, sizeof b, "/%zu", v->n + 1);
		ext[0] = "/-";
		ext[1] = a;
		ext[2] = b;
		for (int k = 0; k < 3; k++)
			if (out->n < MAXPTR)
				snprintf(out->p[out->n++], 48, "%s%s", sb_str(prefix), ext[k]);
	}
	else if (v->k == V_OBJ)
	{
		if (out->n < MAXPTR)
			snprintf(out->p[out->n++], 48, "%s/new", sb_str(prefix));
		if (out->n < MAXPTR)
			snprintf(out->p[out->n++], 48, "%s/n~1w", sb_str(prefix));
	}
	else
		return;
	for (size_t i = 0; i < v->n; i++)
	{
		if (v->k == V_ARR)
			sb_printf(prefix, "/%zu", i);
		else
		{
			sb_putc(prefix, '/');
			escape_key(v->keys[i], v->klens[i], prefix);
		}
		beyond_pointers(v->items[i], prefix, out);
		prefix->n = keep;
		prefix->p[keep] = 0;
	}
}
static V *menu_value(int k)
{
	switch (k)
	{
	case 0: return v_int(0, 1);
	case 1: return v_null();
	case 2:
	{
		V *o = v_obj(0);
		v_obj_put(o, "x", 1, v_int(0, 1));
		return o;
	}
	default:
	{
		V *a = v_arr(1);
		a->items[0] = v_int(0, 1);
		return a;
	}
	}
}
#define MAXMENU 4096
/* nested array variants of the out-of-range indices */
static const char *bigidx_paths[] = {"/b/c/4294967296", "/b/c/4294967297", "/1/4294967297", "/arr/18446744073709551617", "/arr/4294967298"};
static int build_menu(V *doc, V **menu, int reduced)
{
	struct ptrs nodes = {.n = 0}, paths = {.n = 0};
	sb_t pre = {0};
	sb_puts(&pre, "");
	all_pointers(doc, &pre, &nodes);
	pre.n = 0;
	if (pre.p)
		pre.p[0] = 0;
	all_pointers(doc, &pre, &paths);
	pre.n = 0;
	if (pre.p)
		pre.p[0] = 0;
	beyond_pointers(doc, &pre, &paths);
	sb_free(&pre);
	static const char *malformed[] = {"x", "/nope/deeper", "/-1", "/4294967296", "/4294967297", "/18446744073709551617"};
	for (int k = 0; k < (reduced ? 4 : 6) && paths.n < MAXPTR; k++)
		snprintf(paths.p[paths.n++], 48, "%s", malformed[k]);
	int n = 0, nv = reduced ? 2 : 4;
	for (int p = 0; p < paths.n; p++)
	{
		for (int k = 0; k < nv; k++)
		{
			int vk = reduced ? (k == 0 ? 2 : 1) : k;
			if (n < MAXMENU)
				menu[n++] = mkop("add", paths.p[p], NULL, menu_value(vk), 1);
			if (n < MAXMENU && (!reduced || k == 0))
				menu[n++] = mkop("replace", paths.p[p], NULL, menu_value(vk), 1);
		}
		if (n < MAXMENU)
			menu[n++] = mkop("remove", paths.p[p], NULL, NULL, 0);
		/* test: the value actually there, and a different one */
		V *t = resolve(doc, paths.p[p], strlen(paths.p[p]), NULL, NULL);
		if (n < MAXMENU)
			menu[n++] = mkop("test", paths.p[p], NULL, t ? v_clone(t) : v_int(0, 1), 1);
		if (n < MAXMENU && !reduced)
			menu[n++] = mkop("test", paths.p[p], NULL, v_strz("other"), 1);
		for (int f = 0; f < nodes.n; f++)
		{
			if (reduced && (f % 2) && f != nodes.n - 1)
				continue;
			if (n < MAXMENU)
				menu[n++] = mkop("move", paths.p[p], nodes.p[f], NULL, 0);
			if (n < MAXMENU)
				menu[n++] = mkop("copy", paths.p[p], nodes.p[f], NULL, 0);
		}
	}
	for (unsigned k = 0; k < sizeof bigidx_paths / sizeof bigidx_paths[0] && n + 4 < MAXMENU; k++)
	{
		menu[n++] = mkop("remove", bigidx_paths[k], NULL, NULL, 0);
		menu[n++] = mkop("replace", bigidx_paths[k], NULL, menu_value(0), 1);
		menu[n++] = mkop("copy", "/new", bigidx_paths[k], NULL, 0);
		menu[n++] = mkop("test", bigidx_paths[k], NULL, menu_value(0), 1);
	}
	/* from that does not exist */
	if (n < MAXMENU)
		menu[n++] = mkop("move", "/new", "/absent", NULL, 0);
	if (n < MAXMENU)
		menu[n++] = mkop("copy", "/new", "/absent", NULL, 0);
	if (n < MAXMENU)
		menu[n++] = mkop("move", "/absent", "/absent", NULL, 0);
	return n;
}

static const char *targets[] = {
    "{\"a\":1,\"b\":{\"c\":[1,2,3]},\"d\":null}",
    "[1,[2,3],{\"x\":null}]",
    "{\"a/b\":1,\"m~n\":{\"\":2},\"\":[null]}",
    "{\"a\":{\"b\":1},\"ab\":2,\"a/b\":3}",
    "[null,null]",
    "{\"arr\":[1,2,3],\"o\":{}}",
    "1",
    "{}",
    "[[],[[]]]",
    "{\"0\":[0],\"1\":{\"0\":\"z\"}}",
    "[0,1,2,3,4,5,6,7,8,9,10,11]", /* two-digit indices */
};
#define NTARGETS 11


static V *parse_v(const char *t)
{
	struct rr_result rr;
	rr_parse((const unsigned char *)t, strlen(t), NULL, &rr);
	if (rr.status)
		abort();
	return rr.value;
}

static void seq_rec(V *doc0, V *cur, V **chosen, int depth, int maxdepth, int reduced)
{
	V **menu = malloc(MAXMENU * sizeof *menu);
	int n = build_menu(cur, menu, reduced || depth > 0);
	for (int m = 0; m < n; m++)
	{
		if (mc_deadline())
			break;
		chosen[depth] = menu[m];
		va_mark_t mk = va_mark();
		V *patch = v_arr((size_t)depth + 1);
		for (int i = 0; i <= depth; i++)
			patch->items[i] = chosen[i];
		apply_case(doc0, patch, (m + depth) & 1);
		if (depth == 0)
			apply_case(doc0, patch, !((m + depth) & 1));
		if (depth + 1 < maxdepth)
		{
			V *next = v_clone(cur);
			if (ref_op(&next, menu[m]) == 0)
				seq_rec(doc0, next, chosen, depth + 1, maxdepth, reduced);
		}
		va_release(mk);
	}
	free(menu);
}
static void fam_sequences(void)
{
	int maxdepth = (int)mc_opt_int("len", mc_tier ? 3 : 2);
	for (int t = 0; t < NTARGETS; t++)
	{
		va_reset();
		V *doc = parse_v(targets[t]);
		V *chosen[4];
		/* the wide array has a large menu: reduced menu, and one level less in the quick tier */
		if (t == NTARGETS - 1)
			seq_rec(doc, doc, chosen, 0, mc_tier ? 2 : 1, 1);
		else
			seq_rec(doc, doc, chosen, 0, maxdepth, maxdepth >= 3);
	}
}

/* ---------- (b) arbitrary patch documents ---------- */
static V *field_value(int kind)
{
	/* 0 absent(NULL) 1 null 2 number 3 true 4.. strings / containers */
	switch (kind)
	{
	case 1: return v_null();
	case 2: return v_int(0, 5);
	case 3: return v_bool(1);
	case 4: return v_arr(0);
	case 5: return v_obj(0);
	default: return NULL;
	}
}
static void fam_malformed(void)
{
	static const char *ops[] = {NULL, "\1null", "\1num", "\1true", "add", "remove", "replace", "move", "copy", "test", "bogus", "\1arr", "\1obj", "ADD", ""};
	static const char *paths[] = {NULL, "\1null", "\1num", "", "/a", "a", "/a/0", "/b", "\1arr"};
	static const char *values[] = {NULL, "\1null", "1"};
	static const char *froms[] = {NULL, "\1null", "\1num", "/a", "", "/zz", "\1obj"};
	static const char *docs[] = {"{\"a\":[1,2],\"b\":null}", "[1]"};
	for (unsigned d = 0; d < 2; d++)
		for (unsigned o = 0; o < sizeof ops / sizeof ops[0]; o++)
			for (unsigned p = 0; p < sizeof paths / sizeof paths[0]; p++)
				for (unsigned v = 0; v < 3; v++)
					for (unsigned f = 0; f < sizeof froms / sizeof froms[0]; f++)
						for (int second = 0; second < 2; second++)
						{
							if (mc_deadline())
								return;
							va_reset();
							V *doc = parse_v(docs[d]);
							V *el = v_obj(0);
							const char *fld[4] = {ops[o], paths[p], values[v], froms[f]};
							static const char *names[4] = {"op", "path", "value", "from"};
							for (int k = 0; k < 4; k++)
							{
								if (!fld[k])
									continue;
								V *fv;
								if (fld[k][0] == '\1')
								{
									const char *t = fld[k] + 1;
									fv = !strcmp(t, "null") ? v_null() : !strcmp(t, "num") ? v_int(0, 5) : !strcmp(t, "true") ? v_bool(1) : !strcmp(t, "arr") ? v_arr(0) : v_obj(0);
								}
								else if (k == 2)
									fv = v_int(0, 1);
								else
									fv = v_strz(fld[k]);
								v_obj_put(el, names[k], strlen(names[k]), fv);
							}
							V *patch = v_arr(second ? 2 : 1);
							if (second)
							{
								patch->items[0] = mkop("test", "", NULL, v_clone(doc), 1);
								patch->items[1] = el;
							}
							else
								patch->items[0] = el;
							apply_case(doc, patch, (int)((o + p + v + f) & 1));
						}
	/* the element itself is not an object; the patch is not an array; argument-shape errors */
	va_reset();
	V *doc = parse_v(docs[0]);
	for (int k = 1; k <= 6; k++)
	{
		V *el = k == 6 ? v_strz("x") : field_value(k);
		V *patch = v_arr(1);
		patch->items[0] = el;
		apply_case(doc, patch, k & 1);
		V *p2 = v_arr(2);
		p2->items[0] = mkop("add", "/q", NULL, v_int(0, 1), 1);
		p2->items[1] = el;
		apply_case(doc, p2, !(k & 1));
		/* the patch itself of a non-array kind */
		apply_case(doc, el, k & 1);
	}
	if (mc_case_begin())
	{
		struct json_object *j = json_tokener_parse("{\"a\":1}"), *pa = json_tokener_parse("[]"), *base = NULL;
		struct json_patch_error pe;
		cur_doc = cur_patch = NULL;
		if (json_patch_apply(NULL, pa, &base, &pe) >= 0)
			mc_violation("argument-shape-accepted", "copy_from == NULL and *base == NULL accepted");
		base = j;
		if (json_patch_apply(j, pa, &base, &pe) >= 0)
			mc_violation("argument-shape-accepted", "both copy_from and *base non-NULL accepted");
		if (json_patch_apply(j, pa, NULL, &pe) >= 0)
			mc_violation("argument-shape-accepted", "base == NULL accepted");
		/* the error record is optional: the same refusals without one */
		base = NULL;
		if (json_patch_apply(NULL, pa, &base, NULL) >= 0)
			mc_violation("argument-shape-accepted", "copy_from == NULL and *base == NULL accepted (no error record)");
		base = j;
		if (json_patch_apply(j, pa, &base, NULL) >= 0)
			mc_violation("argument-shape-accepted", "both copy_from and *base non-NULL accepted (no error record)");
		if (json_patch_apply(j, pa, NULL, NULL) >= 0)
			mc_violation("argument-shape-accepted", "base == NULL accepted (no error record)");
		{
			static const char *notarr[] = {"{\"op\":\"add\",\"path\":\"/x\",\"value\":1}", "\"add\"", "7", "true", "[[]]", "[7]", "[{\"op\":\"bogus\",\"path\":\"\"}]", "[{\"op\":\"add\"}]"};
			for (unsigned k = 0; k < sizeof notarr / sizeof notarr[0]; k++)
				for (int mode = 0; mode < 2; mode++)
				{
					struct json_object *bad = json_tokener_parse(notarr[k]), *b2 = mode ? json_tokener_parse("{\"a\":1}") : NULL;
					int rc = json_patch_apply(mode ? NULL : j, bad, &b2, NULL);
					if (rc >= 0)
						mc_violation("accepts-invalid:?", "malformed patch %s accepted (no error record)", notarr[k]);
					json_object_put(b2);
					json_object_put(bad);
				}
			/* a NULL patch document */
			struct json_object *b3 = NULL;
			if (json_patch_apply(j, NULL, &b3, NULL) >= 0)
				mc_violation("accepts-invalid:?", "NULL patch accepted (no error record)");
			json_object_put(b3);
			b3 = NULL;
			if (json_patch_apply(j, NULL, &b3, &pe) >= 0)
				mc_violation("accepts-invalid:?", "NULL patch accepted");
			json_object_put(b3);
		}
		base = NULL;
		if (json_patch_apply(j, pa, &base, NULL) != 0 || !json_object_equal(base, j))
			mc_violation("empty-patch", "an empty patch with copy_from did not produce an equal copy");
		json_object_put(base);
		json_object_put(j);
		json_object_put(pa);
	}
}

static void enumerate(void)
{
	const char *only = mc_opt("fam", "");
	if (!*only || !strcmp(only, "malformed"))
		fam_malformed();
	if (!*only || !strcmp(only, "sequences"))
		fam_sequences();
}
static unsigned char rb1[8192], rb2[8192];
static int replay(const char *desc)
{
	size_t n1 = 0, n2 = 0;
	long ip = 0;
	if (!mc_desc_hex(desc, "doc", rb1, sizeof rb1, &n1) || !mc_desc_hex(desc, "patch", rb2, sizeof rb2, &n2))
		return -1;
	mc_desc_int(desc, "inplace", &ip);
	struct rr_result r1, r2;
	rr_parse(rb1, n1, NULL, &r1);
	rr_parse(rb2, n2, NULL, &r2);
	if (r1.status || r2.status)
		return -1;
	apply_case(r1.value, r2.value, (int)ip);
	printf("result dump: %s\nexpected:    %s\n", sb_str(&d_got), sb_str(&d_exp));
	return (int)mc_violations();
}
int main(int argc, char **argv)
{
	struct mc_harness h = {"c13", enumerate, describe, replay};
	return mc_main(argc, argv, &h);
}
