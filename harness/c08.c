/* C08 - one failed allocation gives a clean failure: no leak, crash or corruption.
 * A corpus of deterministic workloads; every allocation-like call (malloc, calloc,
 * realloc, strdup, vasprintf, duplocale, newlocale) is a choice point.  Deviation
 * bound 1: every index k failed in turn; bound 2: every pair k1<k2. */
#include "mc.h"
#include "json.h"
#include "json_visit.h"
#include "json_util.h"
#include <errno.h>
#include <stdlib.h>
#include <string.h>

enum
{
	R_OK,
	R_FAIL,
	R_BAD
};
struct wctx
{
	int arg;
	struct json_object *pre, *pre2; /* trees the caller owns before and after the operation */
	struct json_object *val;        /* value handed to the operation; val_owned says who owns it afterwards */
	int val_owned;
	struct json_object *out; /* value produced by the operation (owned by the caller) */
	sb_t res;                /* canonical description of the normal result */
};
struct wl
{
	const char *name;
	const char *kind; /* parse, construct, add, setstr, copy, serialize, pointer, patch, tokener, fd, format */
	void (*setup)(struct wctx *);
	int (*op)(struct wctx *);
	int arg;
};

static const char *DOCS[] = {
    "\"0123456789012345678901234567890123456789\"",
    "[0,1,2,3,4,5,6,7,8,9,10,11,12,13,14,15,16,17,18,19,20,21,22,23,24,25,26,27,28,29,30,31,32,33]",
    "{\"a\":1,\"b\":2,\"c\":3,\"d\":4,\"e\":5,\"f\":6,\"g\":7,\"h\":8,\"i\":9,\"j\":10,\"k\":11,\"l\":12}",
    "[1.5,2.25e10,-0.125,1e-7]",
    "[[[[{\"a\":[{\"b\":[[]]}]}]]]]",
    "\"a\\n\\u00e9\\ud83d\\ude00\\\\\\\"\\/b\"",
    "/* c */ [1, // x\n 2] ",
    "{\"k\":[1,\"two\",{\"three\":3.0,\"n\":null}],\"s\":\"0123456789abcdef0123456789abcdef0\",\"t\":true}",
};
#define NDOCS 8

static int patch_failed_inplace;
static int patch_like_partial; /* a multi-step operation failed after partial success: "unchanged" is not required */
static struct json_object *parse_doc(int i)
{
	struct json_object *o = json_tokener_parse(DOCS[i]);
	if (!o)
		abort();
	return o;
}
static void dump_to(struct json_object *o, sb_t *out)
{
	sb_reset(out);
	vf_dump(o, out, 0);
}

/* ---------- operations ---------- */
static void setup_none(struct wctx *c)
{
	(void)c;
}
static int op_parse(struct wctx *c)
{
	struct json_tokener *tok = json_tokener_new();
	if (!tok)
		return R_FAIL;
	const char *t = DOCS[c->arg];
	struct json_object *o = json_tokener_parse_ex(tok, t, (int)strlen(t) + 1);
	enum json_tokener_error e = json_tokener_get_error(tok);
	json_tokener_free(tok);
	if (e == json_tokener_error_memory)
	{
		if (o)
		{
			mc_violation("value-with-memory-error", "parse returned a value together with the out-of-memory status");
			json_object_put(o);
			return R_BAD;
		}
		return R_FAIL;
	}
	if (e != json_tokener_success)
	{
		if (o)
			json_object_put(o);
		mc_violation("wrong-failure-channel", "parse under allocation failure ended with status '%s' instead of out of memory", json_tokener_error_desc(e));
		return R_BAD;
	}
	c->out = o;
	dump_to(o, &c->res);
	return R_OK;
}
/* after an out-of-memory outcome the same parser object, reset, must parse like a new one */
static int op_parse_retry(struct wctx *c)
{
	struct json_tokener *tok = json_tokener_new();
	if (!tok)
		return R_FAIL;
	const char *t = DOCS[c->arg];
	struct json_object *o = json_tokener_parse_ex(tok, t, (int)strlen(t) + 1);
	enum json_tokener_error e = json_tokener_get_error(tok);
	if (e == json_tokener_error_memory)
	{
		vf_fail_plan(0, 0); /* memory is available again */
		json_object_put(o);
		json_tokener_reset(tok);
		o = json_tokener_parse_ex(tok, t, (int)strlen(t) + 1);
		e = json_tokener_get_error(tok);
		if (e != json_tokener_success)
		{
			mc_violation("parser-unusable-after-memory-error", "after an out-of-memory outcome and json_tokener_reset the same text fails with '%s'", json_tokener_error_desc(e));
			json_object_put(o);
			json_tokener_free(tok);
			return R_BAD;
		}
	}
	else if (e != json_tokener_success)
	{
		json_object_put(o);
		json_tokener_free(tok);
		mc_violation("wrong-failure-channel", "parse under allocation failure ended with status '%s' instead of out of memory", json_tokener_error_desc(e));
		return R_BAD;
	}
	json_tokener_free(tok);
	c->out = o;
	dump_to(o, &c->res);
	return R_OK;
}
static void setup_churned(struct wctx *c)
{
	/* containers with a history: tombstones in the table, a shrunk array */
	c->pre = json_object_new_object();
	for (int i = 0; i < 9; i++)
	{
		char k[8];
		snprintf(k, sizeof k, "k%d", i);
		json_object_object_add(c->pre, k, json_object_new_int(i));
	}
	for (int i = 0; i < 9; i += 2)
	{
		char k[8];
		snprintf(k, sizeof k, "k%d", i);
		json_object_object_del(c->pre, k);
	}
	struct json_object *a = json_object_new_array_ext(2);
	for (int i = 0; i < 6; i++)
		json_object_array_add(a, json_object_new_int(i));
	json_object_array_del_idx(a, 1, 4);
	json_object_array_shrink(a, 0);
	json_object_object_add(c->pre, "arr", a);
	/* a parsed array: the parser shrinks every array it finishes, so capacity == length */
	json_object_object_add(c->pre, "parr", json_tokener_parse("[\"p0\",\"p1\",[\"p2\"]]"));
	c->val = json_object_new_string("the value");
	c->val_owned = 1;
}
static int op_churned(struct wctx *c)
{
	int rc = 0;
	struct json_object *a = json_object_object_get(c->pre, "arr");
	switch (c->arg)
	{
	case 0: /* add enough new members to force growth over a table full of tombstones */
		rc = json_object_object_add(c->pre, "n0", c->val);
		if (rc == 0)
		{
			c->val_owned = 0;
			for (int i = 1; i < 8 && rc == 0; i++)
			{
				char k[8];
				snprintf(k, sizeof k, "n%d", i);
				struct json_object *v = json_object_new_int(i);
				if (!v)
				{
					rc = -1;
					break;
				}
				rc = json_object_object_add(c->pre, k, v);
				if (rc)
					json_object_put(v);
			}
			if (rc)
			{
				/* a later step failed after earlier ones succeeded: the object legitimately changed */
				patch_like_partial = 1;
				return R_FAIL;
			}
		}
		break;
	case 1: rc = json_object_array_put_idx(a, 5, c->val); break;
	case 2: rc = json_object_array_insert_idx(a, 1, c->val); break;
	case 3: rc = json_object_array_put_idx(a, 1, c->val); break; /* replace the last element of an array with capacity == length */
	case 4: rc = json_object_array_put_idx(a, 0, c->val); break;
	case 5: rc = json_object_array_put_idx(json_object_object_get(c->pre, "parr"), 2, c->val); break;
	case 6: rc = json_object_array_put_idx(json_object_object_get(c->pre, "parr"), 3, c->val); break;
	case 7: rc = json_object_array_add(json_object_object_get(c->pre, "parr"), c->val); break;
	default: rc = json_object_array_insert_idx(json_object_object_get(c->pre, "parr"), 0, c->val); break;
	}
	if (rc)
		return R_FAIL;
	c->val_owned = 0;
	dump_to(c->pre, &c->res);
	return R_OK;
}
/* strings whose decoded length sits around the scanner's 32-byte buffer so that the growth
 * happens inside each kind of append site (plain run, simple escape, \u escape, pair, key) */
static const char *PB_TAILS[] = {"\\n\\n", "\\u00e9\\u00e9", "\\ud83d\\ude00x", "xx", "\\\\\\\\", "\\ud800x", "\\t\\r\\b\\f", "\\/\\\""};
#define NPB_TAILS 8
static char pbdoc[256];
static const char *pb_doc(int arg)
{
	int len = 27 + (arg % 6), tail = (arg / 6) % NPB_TAILS, as_key = arg / (6 * NPB_TAILS);
	size_t k = 0;
	if (as_key)
		pbdoc[k++] = '{';
	pbdoc[k++] = '"';
	for (int i = 0; i < len; i++)
		pbdoc[k++] = (char)('a' + i % 26);
	k += (size_t)snprintf(pbdoc + k, sizeof pbdoc - k, "%s\"", PB_TAILS[tail]);
	if (as_key)
		k += (size_t)snprintf(pbdoc + k, sizeof pbdoc - k, ":1}");
	pbdoc[k] = 0;
	return pbdoc;
}
static int op_parse_pb(struct wctx *c)
{
	const char *t = pb_doc(c->arg);
	struct json_tokener *tok = json_tokener_new();
	if (!tok)
		return R_FAIL;
	struct json_object *o = json_tokener_parse_ex(tok, t, (int)strlen(t) + 1);
	enum json_tokener_error e = json_tokener_get_error(tok);
	json_tokener_free(tok);
	if (e == json_tokener_error_memory)
	{
		json_object_put(o);
		return R_FAIL;
	}
	if (e != json_tokener_success)
	{
		json_object_put(o);
		mc_violation("wrong-failure-channel", "parse under allocation failure ended with status '%s' instead of out of memory", json_tokener_error_desc(e));
		return R_BAD;
	}
	c->out = o;
	dump_to(o, &c->res);
	return R_OK;
}
/* large documents: the 3rd+ growth of the parser's array / table / token buffer */
static char bigdoc[40000];
static const char *big_doc(int arg)
{
	size_t k = 0;
	if (arg == 0)
	{
		bigdoc[k++] = '[';
		for (int i = 0; i < 300; i++)
			k += (size_t)snprintf(bigdoc + k, sizeof bigdoc - k, "%s%d", i ? "," : "", i);
		bigdoc[k++] = ']';
	}
	else if (arg == 1)
	{
		bigdoc[k++] = '{';
		for (int i = 0; i < 100; i++)
			k += (size_t)snprintf(bigdoc + k, sizeof bigdoc - k, "%s\"member%d\":[%d]", i ? "," : "", i, i);
		bigdoc[k++] = '}';
	}
	else
	{
		bigdoc[k++] = '"';
		for (int i = 0; i < 5000; i++)
			bigdoc[k++] = (i % 97 == 96) ? '\\' : (char)('a' + i % 26);
		/* every backslash above is followed by a letter: make them valid escapes */
		for (size_t j = 1; j + 1 < k; j++)
			if (bigdoc[j] == '\\')
				bigdoc[j + 1] = 'n';
		bigdoc[k++] = '"';
	}
	bigdoc[k] = 0;
	return bigdoc;
}
static int op_parse_big(struct wctx *c)
{
	const char *t = big_doc(c->arg % 3);
	struct json_tokener *tok = json_tokener_new();
	if (!tok)
		return R_FAIL;
	struct json_object *o = json_tokener_parse_ex(tok, t, (int)strlen(t) + 1);
	enum json_tokener_error e = json_tokener_get_error(tok);
	json_tokener_free(tok);
	if (e == json_tokener_error_memory)
	{
		json_object_put(o);
		return R_FAIL;
	}
	if (e != json_tokener_success)
	{
		json_object_put(o);
		mc_violation("wrong-failure-channel", "parse under allocation failure ended with status '%s' instead of out of memory", json_tokener_error_desc(e));
		return R_BAD;
	}
	if (c->arg >= 3)
	{
		/* ... and its deep copy */
		struct json_object *cp = NULL;
		int rc = json_object_deep_copy(o, &cp, NULL);
		json_object_put(o);
		if (rc)
			return R_FAIL;
		o = cp;
	}
	c->out = o;
	dump_to(o, &c->res);
	return R_OK;
}
static int op_parse_simple(struct wctx *c)
{
	/* json_tokener_parse(): NULL on any failure */
	struct json_object *o = json_tokener_parse(DOCS[c->arg]);
	if (!o)
		return R_FAIL;
	c->out = o;
	dump_to(o, &c->res);
	return R_OK;
}
static int op_construct(struct wctx *c)
{
	struct json_object *o = NULL;
	switch (c->arg)
	{
	case 0: o = json_object_new_object(); break;
	case 1: o = json_object_new_array(); break;
	case 2: o = json_object_new_array_ext(5); break;
	case 3: o = json_object_new_string("0123456789012345678901234567890123456789"); break;
	case 4: o = json_object_new_string_len("ab\0cd", 5); break;
	case 5: o = json_object_new_int(5); break;
	case 6: o = json_object_new_double(1.5); break;
	case 7: o = json_object_new_double_s(1.5, "1.50"); break;
	case 8: o = json_object_new_boolean(1); break;
	case 9: o = json_object_new_uint64(UINT64_MAX); break;
	}
	if (!o)
		return R_FAIL;
	c->out = o; /* described (with its serialization) after the fault plan has ended */
	return R_OK;
}
static void setup_obj10(struct wctx *c)
{
	c->pre = json_object_new_object();
	int n = (c->arg == 1 || c->arg >= 4) ? 11 : 3; /* 11 members in 16 slots: the next insertion grows the table (load factor 0.66) */
	for (int i = 0; i < n; i++)
	{
		char k[8];
		snprintf(k, sizeof k, "k%d", i);
		json_object_object_add(c->pre, k, json_object_new_int(i));
	}
	c->val = json_object_new_string("the value");
	c->val_owned = 1;
}
static int op_obj_add(struct wctx *c)
{
	/* arg 0: new key, no growth; 1: new key with table growth (12th member); 2: replace; 3: add_ex new+constant */
	int rc;
	if (c->arg == 2)
		rc = json_object_object_add(c->pre, "k1", c->val);
	else if (c->arg == 3 || c->arg == 4)
		rc = json_object_object_add_ex(c->pre, "constant", c->val, JSON_C_OBJECT_ADD_KEY_IS_NEW | JSON_C_OBJECT_ADD_CONSTANT_KEY);
	else if (c->arg == 5)
		rc = json_object_object_add_ex(c->pre, "constant", c->val, JSON_C_OBJECT_ADD_CONSTANT_KEY);
	else if (c->arg == 6)
		rc = json_object_object_add_ex(c->pre, "new key", c->val, JSON_C_OBJECT_ADD_KEY_IS_NEW);
	else
		rc = json_object_object_add(c->pre, "new key", c->val);
	if (rc != 0)
		return R_FAIL;
	c->val_owned = 0;
	dump_to(c->pre, &c->res);
	return R_OK;
}
static void setup_arr32(struct wctx *c)
{
	c->pre = json_object_new_array();
	int n = c->arg >= 3 ? 2 : 32;
	for (int i = 0; i < n; i++)
		json_object_array_add(c->pre, json_object_new_int(i));
	c->val = json_object_new_string("the value");
	c->val_owned = 1;
}
static int op_arr_add(struct wctx *c)
{
	int rc;
	switch (c->arg)
	{
	case 0: rc = json_object_array_add(c->pre, c->val); break;
	case 1: rc = json_object_array_insert_idx(c->pre, 3, c->val); break;
	case 2: rc = json_object_array_put_idx(c->pre, 40, c->val); break;
	case 3: rc = json_object_array_put_idx(c->pre, 1, c->val); break;
	default: rc = json_object_array_shrink(c->pre, 0); break;
	}
	if (rc != 0)
		return R_FAIL;
	if (c->arg != 4)
		c->val_owned = 0;
	dump_to(c->pre, &c->res);
	return R_OK;
}
static void setup_str(struct wctx *c)
{
	c->pre = json_object_new_string("short");
	if (c->arg >= 2)
		/* already moved to separately allocated storage by an earlier set */
		json_object_set_string(c->pre, "a first, longer value that no longer fits inline");
}
static int op_set_string(struct wctx *c)
{
	int rc;
	if (c->arg == 2)
		rc = json_object_set_string(c->pre, "a second value, longer still than the first one, so the separate buffer must be replaced");
	else if (c->arg == 3)
		rc = json_object_set_string_len(c->pre, "tiny", 4); /* fits the existing separate buffer */
	else
		rc = c->arg ? json_object_set_string_len(c->pre, "0123456789012345678901234567890123456789", 40) : json_object_set_string(c->pre, "longer than before, separately stored");
	if (rc != 1)
		return R_FAIL;
	dump_to(c->pre, &c->res);
	return R_OK;
}
static void setup_doc(struct wctx *c)
{
	c->pre = parse_doc(c->arg % NDOCS);
}
static int op_deep_copy(struct wctx *c)
{
	struct json_object *dst = NULL;
	int rc = json_object_deep_copy(c->pre, &dst, NULL);
	if (rc != 0)
	{
		if (dst)
		{
			mc_violation("failed-copy-leaves-destination", "deep copy failed but *dst is non-NULL");
			return R_BAD;
		}
		return R_FAIL;
	}
	c->out = dst;
	dump_to(dst, &c->res);
	return R_OK;
}
static void setup_big(struct wctx *c)
{
	/* large enough to grow the print buffer several times */
	c->pre = json_object_new_array();
	for (int i = 0; i < 40; i++)
	{
		char s[16];
		snprintf(s, sizeof s, "s%02d", i);
		json_object_array_add(c->pre, json_object_new_string(s));
	}
	struct json_object *o = json_object_new_object();
	json_object_object_add(o, "pi", json_object_new_double(3.14159));
	json_object_object_add(o, "esc", json_object_new_string("a\"b\\c\n\x01"));
	json_object_object_add(o, "nested", parse_doc(4));
	json_object_array_add(c->pre, o);
	c->pre2 = NULL;
}
static int op_serialize(struct wctx *c)
{
	int flags = c->arg == 0 ? JSON_C_TO_STRING_PLAIN : c->arg == 1 ? (JSON_C_TO_STRING_PRETTY | JSON_C_TO_STRING_SPACED) : JSON_C_TO_STRING_PRETTY | JSON_C_TO_STRING_PRETTY_TAB | JSON_C_TO_STRING_COLOR;
	size_t len = 0;
	const char *t = json_object_to_json_string_length(c->pre, flags, &len);
	if (!t)
		return R_FAIL;
	sb_reset(&c->res);
	sb_put(&c->res, t, strlen(t));
	if (len != strlen(t))
		sb_printf(&c->res, " [reported length %zu]", len);
	return R_OK;
}
static void setup_ptr(struct wctx *c)
{
	c->pre = json_tokener_parse("{\"a\":{\"b\":[1,2,{\"c\":null}]},\"x/y\":5}");
	c->val = json_object_new_string("the value");
	c->val_owned = 1;
}
static int op_pointer(struct wctx *c)
{
	struct json_object *r = NULL;
	int rc;
	switch (c->arg)
	{
	case 0:
		rc = json_pointer_get(c->pre, "/a/b/2/c", &r);
		if (rc)
			return R_FAIL;
		sb_reset(&c->res);
		sb_printf(&c->res, "found %s", r ? "non-null" : "null");
		return R_OK;
	case 1:
		rc = json_pointer_getf(c->pre, &r, "/a/%s/%d", "b", 1);
		if (rc)
			return R_FAIL;
		dump_to(r, &c->res);
		return R_OK;
	case 2: rc = json_pointer_set(&c->pre, "/a/b/2/new", c->val); break;
	case 3: rc = json_pointer_setf(&c->pre, c->val, "/a/b/%d", 5); break;
	case 4: rc = json_pointer_set(&c->pre, "/x~1y", c->val); break;
	default: rc = json_pointer_set(&c->pre, "/a/b/-", c->val); break;
	}
	if (rc)
		return R_FAIL;
	c->val_owned = 0;
	dump_to(c->pre, &c->res);
	return R_OK;
}
/* long member names (beyond typical 128-byte stack buffers) through pointer set and patch add,
 * also into an object that must grow its table for the new member */
static char longkey_ptr[600], longkey_patch[900];
static void setup_longkey(struct wctx *c)
{
	char key[320];
	int kl = (c->arg & 1) ? 300 : 129;
	memset(key, 'K', (size_t)kl);
	key[5] = '~';
	key[kl] = 0;
	c->pre = json_object_new_object();
	int members = (c->arg & 2) ? 10 : 2;
	for (int i = 0; i < members; i++)
	{
		char k[8];
		snprintf(k, sizeof k, "m%d", i);
		json_object_object_add(c->pre, k, json_object_new_int(i));
	}
	/* pointer: '~' escaped as ~0 */
	size_t n = 0;
	longkey_ptr[n++] = '/';
	for (int i = 0; i < kl; i++)
	{
		if (key[i] == '~')
		{
			longkey_ptr[n++] = '~';
			longkey_ptr[n++] = '0';
		}
		else
			longkey_ptr[n++] = key[i];
	}
	longkey_ptr[n] = 0;
	snprintf(longkey_patch, sizeof longkey_patch, "[{\"op\":\"add\",\"path\":\"%s\",\"value\":[1,2]}]", longkey_ptr);
	if (c->arg & 4)
		c->pre2 = json_tokener_parse(longkey_patch);
	else
	{
		c->val = json_object_new_string("the value");
		c->val_owned = 1;
	}
}
static int op_longkey(struct wctx *c)
{
	int rc;
	if (c->arg & 4)
	{
		struct json_patch_error pe;
		rc = json_patch_apply(NULL, c->pre2, &c->pre, &pe);
		if (rc)
		{
			patch_failed_inplace = 1;
			return R_FAIL;
		}
	}
	else
	{
		rc = json_pointer_set(&c->pre, longkey_ptr, c->val);
		if (rc)
			return R_FAIL;
		c->val_owned = 0;
	}
	dump_to(c->pre, &c->res);
	return R_OK;
}
static const char *PATCHES[] = {
    "[{\"op\":\"add\",\"path\":\"/a/new\",\"value\":{\"deep\":[1,2,3]}}]",
    "[{\"op\":\"remove\",\"path\":\"/a/b/0\"}]",
    "[{\"op\":\"replace\",\"path\":\"/a/b/1\",\"value\":\"r\"}]",
    "[{\"op\":\"move\",\"from\":\"/a/b\",\"path\":\"/moved\"}]",
    "[{\"op\":\"copy\",\"from\":\"/a\",\"path\":\"/copied\"}]",
    "[{\"op\":\"test\",\"path\":\"/x~1y\",\"value\":5}]",
    "[{\"op\":\"add\",\"path\":\"/a/b/-\",\"value\":1},{\"op\":\"move\",\"from\":\"/a/b/0\",\"path\":\"/a/b/2\"},{\"op\":\"copy\",\"from\":\"/x~1y\",\"path\":\"/z\"}]",
};
#define NPATCH 7
static void setup_patch(struct wctx *c)
{
	c->pre = json_tokener_parse("{\"a\":{\"b\":[1,2,{\"c\":null}]},\"x/y\":5}");
	c->pre2 = json_tokener_parse(PATCHES[c->arg % NPATCH]);
}
static int op_patch(struct wctx *c)
{
	int inplace = c->arg >= NPATCH;
	struct json_patch_error pe;
	int rc;
	patch_failed_inplace = 0;
	if (inplace)
	{
		/* the document is operated on in place: after a failure it must still be valid, but the
		 * API does not promise it is unchanged */
		rc = json_patch_apply(NULL, c->pre2, &c->pre, &pe);
		if (rc)
		{
			patch_failed_inplace = 1;
			return R_FAIL;
		}
		dump_to(c->pre, &c->res);
		return R_OK;
	}
	struct json_object *base = NULL;
	rc = json_patch_apply(c->pre, c->pre2, &base, &pe);
	if (rc)
	{
		json_object_put(base); /* documented: must be released even when patching fails */
		return R_FAIL;
	}
	c->out = base;
	dump_to(base, &c->res);
	return R_OK;
}
static int op_tokener_new(struct wctx *c)
{
	struct json_tokener *tok = c->arg ? json_tokener_new_ex(3) : json_tokener_new();
	if (!tok)
		return R_FAIL;
	json_tokener_free(tok);
	sb_reset(&c->res);
	sb_puts(&c->res, "tokener");
	return R_OK;
}
static int op_from_fd(struct wctx *c)
{
	static char big[9000];
	const char *doc = DOCS[7];
	size_t n = strlen(doc);
	if (c->arg == 1)
	{
		/* > 4096 bytes: several reads and buffer growth */
		size_t k = 0;
		big[k++] = '[';
		for (int i = 0; i < 800; i++)
			k += (size_t)snprintf(big + k, sizeof big - k, "%s%d", i ? "," : "", 100000 + i);
		big[k++] = ']';
		big[k] = 0;
		doc = big;
		n = k;
	}
	vf_fd_reset();
	int fd = vf_fd_new_input(doc, n);
	struct json_object *o = c->arg == 2 ? json_object_from_fd_ex(fd, 8) : json_object_from_fd(fd);
	vf_close(fd);
	if (!o)
	{
		if (!json_util_get_last_err())
		{
			mc_violation("no-error-message", "json_object_from_fd returned NULL without a retrievable message");
			return R_BAD;
		}
		return R_FAIL;
	}
	c->out = o;
	dump_to(o, &c->res);
	return R_OK;
}
static int op_to_fd(struct wctx *c)
{
	vf_fd_reset();
	int fd = vf_fd_new_output();
	int rc = json_object_to_fd(fd, c->pre, JSON_C_TO_STRING_PLAIN);
	size_t n;
	const unsigned char *w = vf_fd_output(fd, &n);
	sb_reset(&c->res);
	sb_put(&c->res, w, n);
	vf_close(fd);
	if (rc)
	{
		if (n)
		{
			mc_violation("partial-output-on-failure", "json_object_to_fd failed but %zu bytes had been written", n);
			return R_BAD;
		}
		return R_FAIL;
	}
	return R_OK;
}
static void setup_format(struct wctx *c)
{
	c->pre = json_object_new_double(1.25);
	json_c_set_serialization_double_format("%.3f", JSON_C_OPTION_GLOBAL);
}
static int op_format(struct wctx *c)
{
	int rc = json_c_set_serialization_double_format(c->arg ? NULL : "%.5f", c->arg == 2 ? JSON_C_OPTION_THREAD : JSON_C_OPTION_GLOBAL);
	/* whatever happened, a later serialization must be safe */
	const char *t = json_object_to_json_string(c->pre);
	sb_reset(&c->res);
	sb_printf(&c->res, "rc=%d text=%s", rc, t ? t : "(null)");
	json_c_set_serialization_double_format(NULL, JSON_C_OPTION_GLOBAL);
	json_c_set_serialization_double_format(NULL, JSON_C_OPTION_THREAD);
	if (rc || !t)
		return R_FAIL; /* either the option could not be stored or the serialization reported failure */
	return R_OK;
}
static int visit_count;
static int visit_cb(json_object *jso, int flags, json_object *parent, const char *key, size_t *index, void *ud)
{
	(void)jso;
	(void)flags;
	(void)parent;
	(void)key;
	(void)index;
	(void)ud;
	visit_count++;
	return JSON_C_VISIT_RETURN_CONTINUE;
}
static int op_misc(struct wctx *c)
{
	sb_reset(&c->res);
	switch (c->arg)
	{
	case 0:
	{
		struct json_object *other = json_tokener_parse(DOCS[7]);
		if (!other)
			return R_FAIL;
		int eq = json_object_equal(c->pre, other);
		json_object_put(other);
		sb_printf(&c->res, "equal=%d", eq);
		return R_OK;
	}
	case 1:
		visit_count = 0;
		if (json_c_visit(c->pre, 0, visit_cb, NULL))
			return R_FAIL;
		sb_printf(&c->res, "visited=%d", visit_count);
		return R_OK;
	default:
	{
		const char *s = json_object_get_string(c->pre);
		if (!s)
			return R_FAIL;
		sb_puts(&c->res, s);
		return R_OK;
	}
	}
}

#define W(name, kind, setup, op, arg) {name, kind, setup, op, arg}
static const struct wl WL_STATIC[] = {
    W("parse_ex long string", "parse", setup_none, op_parse, 0),
    W("parse_ex 34 elements", "parse", setup_none, op_parse, 1),
    W("parse_ex 12 members", "parse", setup_none, op_parse, 2),
    W("parse_ex doubles", "parse", setup_none, op_parse, 3),
    W("parse_ex nesting", "parse", setup_none, op_parse, 4),
    W("parse_ex escapes", "parse", setup_none, op_parse, 5),
    W("parse_ex comments", "parse", setup_none, op_parse, 6),
    W("parse_ex mixed", "parse", setup_none, op_parse, 7),
    W("json_tokener_parse mixed", "parse", setup_none, op_parse_simple, 7),
    W("parse 300-element array", "parse", setup_none, op_parse_big, 0),
    W("parse 100-member object", "parse", setup_none, op_parse_big, 1),
    W("parse 5000-byte string with escapes", "parse", setup_none, op_parse_big, 2),
    W("parse + deep copy 300-element array", "copy", setup_none, op_parse_big, 3),
    W("parse + deep copy 100-member object", "copy", setup_none, op_parse_big, 4),
    W("parse, memory error, reset, parse again (34 elements)", "parse", setup_none, op_parse_retry, 1),
    W("parse, memory error, reset, parse again (12 members)", "parse", setup_none, op_parse_retry, 2),
    W("parse, memory error, reset, parse again (mixed)", "parse", setup_none, op_parse_retry, 7),
    W("new_object", "construct", setup_none, op_construct, 0),
    W("new_array", "construct", setup_none, op_construct, 1),
    W("new_array_ext", "construct", setup_none, op_construct, 2),
    W("new_string", "construct", setup_none, op_construct, 3),
    W("new_string_len", "construct", setup_none, op_construct, 4),
    W("new_int", "construct", setup_none, op_construct, 5),
    W("new_double", "construct", setup_none, op_construct, 6),
    W("new_double_s", "construct", setup_none, op_construct, 7),
    W("new_boolean", "construct", setup_none, op_construct, 8),
    W("new_uint64", "construct", setup_none, op_construct, 9),
    W("object_add new key", "add", setup_obj10, op_obj_add, 0),
    W("object_add with table growth", "add", setup_obj10, op_obj_add, 1),
    W("object_add replace", "add", setup_obj10, op_obj_add, 2),
    W("object_add_ex new constant key", "add", setup_obj10, op_obj_add, 3),
    W("object_add_ex new constant key with table growth", "add", setup_obj10, op_obj_add, 4),
    W("object_add_ex constant key (looked up) with table growth", "add", setup_obj10, op_obj_add, 5),
    W("object_add_ex KEY_IS_NEW with table growth", "add", setup_obj10, op_obj_add, 6),
    W("array_add with growth", "add", setup_arr32, op_arr_add, 0),
    W("array_insert_idx with growth", "add", setup_arr32, op_arr_add, 1),
    W("array_put_idx beyond end", "add", setup_arr32, op_arr_add, 2),
    W("array_put_idx replace", "add", setup_arr32, op_arr_add, 3),
    W("array_shrink", "add", setup_arr32, op_arr_add, 4),
    W("8 adds into a table full of tombstones", "add", setup_churned, op_churned, 0),
    W("put_idx beyond the end of a shrunk array", "add", setup_churned, op_churned, 1),
    W("insert_idx into a shrunk array", "add", setup_churned, op_churned, 2),
    W("put_idx replacing the last element of a shrunk array", "add", setup_churned, op_churned, 3),
    W("put_idx replacing the first element of a shrunk array", "add", setup_churned, op_churned, 4),
    W("put_idx replacing the last element of a parsed array", "add", setup_churned, op_churned, 5),
    W("put_idx at the length of a parsed array", "add", setup_churned, op_churned, 6),
    W("array_add to a parsed array", "add", setup_churned, op_churned, 7),
    W("insert_idx at the front of a parsed array", "add", setup_churned, op_churned, 8),
    W("set_string growing", "setstr", setup_str, op_set_string, 0),
    W("set_string_len growing", "setstr", setup_str, op_set_string, 1),
    W("set_string growing again (separate storage)", "setstr", setup_str, op_set_string, 2),
    W("set_string_len shrinking (separate storage)", "setstr", setup_str, op_set_string, 3),
    W("deep_copy long string", "copy", setup_doc, op_deep_copy, 0),
    W("deep_copy 34 elements", "copy", setup_doc, op_deep_copy, 1),
    W("deep_copy 12 members", "copy", setup_doc, op_deep_copy, 2),
    W("deep_copy doubles (retained text)", "copy", setup_doc, op_deep_copy, 3),
    W("deep_copy nesting", "copy", setup_doc, op_deep_copy, 4),
    W("deep_copy mixed", "copy", setup_doc, op_deep_copy, 7),
    W("serialize PLAIN", "serialize", setup_big, op_serialize, 0),
    W("serialize PRETTY|SPACED", "serialize", setup_big, op_serialize, 1),
    W("serialize PRETTY_TAB|COLOR", "serialize", setup_big, op_serialize, 2),
    W("pointer_get", "pointer", setup_ptr, op_pointer, 0),
    W("pointer_getf", "pointer", setup_ptr, op_pointer, 1),
    W("pointer_set new member", "pointer", setup_ptr, op_pointer, 2),
    W("pointer_setf beyond array end", "pointer", setup_ptr, op_pointer, 3),
    W("pointer_set escaped key", "pointer", setup_ptr, op_pointer, 4),
    W("pointer_set append", "pointer", setup_ptr, op_pointer, 5),
    W("pointer_set 129-byte member name", "pointer", setup_longkey, op_longkey, 0),
    W("pointer_set 300-byte member name", "pointer", setup_longkey, op_longkey, 1),
    W("pointer_set 129-byte name, table growth", "pointer", setup_longkey, op_longkey, 2),
    W("pointer_set 300-byte name, table growth", "pointer", setup_longkey, op_longkey, 3),
    W("patch add 129-byte member name", "patch", setup_longkey, op_longkey, 4),
    W("patch add 300-byte name, table growth", "patch", setup_longkey, op_longkey, 7),
    W("patch add (copy_from)", "patch", setup_patch, op_patch, 0),
    W("patch remove (copy_from)", "patch", setup_patch, op_patch, 1),
    W("patch replace (copy_from)", "patch", setup_patch, op_patch, 2),
    W("patch move (copy_from)", "patch", setup_patch, op_patch, 3),
    W("patch copy (copy_from)", "patch", setup_patch, op_patch, 4),
    W("patch test (copy_from)", "patch", setup_patch, op_patch, 5),
    W("patch 3 operations (copy_from)", "patch", setup_patch, op_patch, 6),
    W("patch add (in place)", "patch", setup_patch, op_patch, 7),
    W("patch remove (in place)", "patch", setup_patch, op_patch, 8),
    W("patch replace (in place)", "patch", setup_patch, op_patch, 9),
    W("patch move (in place)", "patch", setup_patch, op_patch, 10),
    W("patch copy (in place)", "patch", setup_patch, op_patch, 11),
    W("patch test (in place)", "patch", setup_patch, op_patch, 12),
    W("patch 3 operations (in place)", "patch", setup_patch, op_patch, 13),
    W("tokener_new", "tokener", setup_none, op_tokener_new, 0),
    W("tokener_new_ex", "tokener", setup_none, op_tokener_new, 1),
    W("from_fd small", "fd", setup_none, op_from_fd, 0),
    W("from_fd 2 reads", "fd", setup_none, op_from_fd, 1),
    W("from_fd_ex depth", "fd", setup_none, op_from_fd, 2),
    W("to_fd", "fd", setup_big, op_to_fd, 0),
    W("set_serialization_double_format global", "format", setup_format, op_format, 0),
    W("set_serialization_double_format reset", "format", setup_format, op_format, 1),
    W("set_serialization_double_format thread", "format", setup_format, op_format, 2),
    W("equal", "misc", setup_doc, op_misc, 0),
    W("visit", "misc", setup_doc, op_misc, 1),
    W("get_string of a container", "misc", setup_doc, op_misc, 2),
};
#define NWL_STATIC (int)(sizeof WL_STATIC / sizeof WL_STATIC[0])
#define NPBW (6 * NPB_TAILS * 2)
static struct wl WL[256];
static int NWL;
static char pbnames[NPBW][64];
static void build_workloads(void)
{
	NWL = 0;
	for (int i = 0; i < NWL_STATIC; i++)
		WL[NWL++] = WL_STATIC[i];
	for (int a = 0; a < NPBW; a++)
	{
		snprintf(pbnames[a], sizeof pbnames[a], "parse %s of %d bytes + tail#%d", a >= 6 * NPB_TAILS ? "member name" : "string", 27 + a % 6, (a / 6) % NPB_TAILS);
		WL[NWL++] = (struct wl){pbnames[a], "parse", setup_none, op_parse_pb, a};
	}
}

static int cur_w = -1;
static long cur_k1, cur_k2;
static void describe(sb_t *o)
{
	sb_printf(o, "workload=%d k1=%ld k2=%ld name=\"%s\"", cur_w, cur_k1, cur_k2, cur_w >= 0 ? WL[cur_w].name : "");
}

static char *baseline[256];
static long nallocs[256];
static sb_t d0, d1, d2;

/* runs workload w with the fault plan; returns the number of allocation calls made by the operation */
static long run_one(int w, long k1, long k2)
{
	static char sigbuf[96];
	cur_w = w;
	cur_k1 = k1;
	cur_k2 = k2;
	const struct wl *W_ = &WL[w];
	struct wctx c;
	memset(&c, 0, sizeof c);
	c.arg = W_->arg;
	long live0 = vf_live();
	W_->setup(&c);
	/* serializing allocates a print buffer inside the serialized node: warm it so that the dumps below are pure */
	dump_to(c.pre, &d0);
	sb_reset(&d2);
	vf_dump(c.pre2, &d2, 0);
	char *pre2_before = strdup(sb_str(&d2));
	long viol_before = mc_violations();
	vf_counters_reset();
	vf_fail_plan(k1, k2);
	mc_phase = W_->kind;
	int st = W_->op(&c);
	int fired = vf_fail_fired();
	long n = vf_alloc_calls();
	char vf_fail_kinds_saved[8];
	snprintf(vf_fail_kinds_saved, sizeof vf_fail_kinds_saved, "%s", vf_fail_kinds());
	vf_fail_plan(0, 0);
	mc_phase = "after-op";
	snprintf(sigbuf, sizeof sigbuf, "%s", W_->kind);
	if (st == R_OK && c.out && c.res.n == 0)
	{
		sb_reset(&c.res);
		vf_dump(c.out, &c.res, DUMP_SER);
	}
	else if (st == R_OK && c.out)
	{
		/* memory is available again: the produced value must also SERIALIZE like the fault-free one
		 * (retained number text, serializer data: things the typed dump does not look at) */
		sb_t ser = {0};
		vf_dump(c.out, &ser, DUMP_SER);
		sb_puts(&c.res, " serialized=");
		sb_put(&c.res, ser.p ? ser.p : "", ser.n);
		sb_free(&ser);
	}
	if (st == R_OK)
	{
		if (k1 == 0)
		{
			free(baseline[w]);
			baseline[w] = strdup(sb_str(&c.res));
			nallocs[w] = n;
		}
		else if (baseline[w] && strcmp(baseline[w], sb_str(&c.res)))
		{
			char sig[128];
			/* narrow predicate of the known finding (serializer ignores failed print-buffer growth):
			 * every injected failure hit a realloc, and the text is the expected one with bytes
			 * missing - nothing altered, nothing added.  Anything else gets its own signature. */
			const char *kinds = vf_fail_kinds_saved;
			int only_realloc = kinds[0] != 0;
			for (const char *q = kinds; *q; q++)
				only_realloc &= *q == 'r';
			const char *g = sb_str(&c.res), *e = baseline[w];
			while (*g && *e)
			{
				if (*g == *e)
					g++;
				e++;
			}
			int hole = *g == 0;
			if (only_realloc && hole)
				snprintf(sig, sizeof sig, "%s:wrong-result-reported-as-success", W_->kind);
			else
				snprintf(sig, sizeof sig, "%s:altered-result-reported-as-success", W_->kind);
			mc_violation(sig, "with allocation %ld%s failing the operation reports success but its result differs: got %.300s ... expected %.300s", k1,
			             k2 ? " (and a second one)" : "", sb_str(&c.res), baseline[w]);
		}
	}
	else if (st == R_FAIL)
	{
		if (!fired)
		{
			char sig[128];
			snprintf(sig, sizeof sig, "%s:failure-without-fault", W_->kind);
			mc_violation(sig, "the operation failed although no allocation was failed");
		}
	}
	/* objects the caller still owns are valid and unchanged */
	if (c.pre && !((patch_failed_inplace || patch_like_partial) && st == R_FAIL) && st != R_OK)
	{
		dump_to(c.pre, &d1);
		if (strcmp(sb_str(&d0), sb_str(&d1)))
		{
			char sig[128];
			snprintf(sig, sizeof sig, "%s:failed-operation-altered-callers-object", W_->kind);
			mc_violation(sig, "after the failed operation the pre-existing tree dumps as %.200s (was %.200s)", sb_str(&d1), sb_str(&d0));
		}
	}
	else if (c.pre && (patch_failed_inplace || patch_like_partial))
		dump_to(c.pre, &d1); /* must at least be traversable (ASan) */
	if (c.pre2)
	{
		sb_reset(&d2);
		vf_dump(c.pre2, &d2, 0);
		if (strcmp(pre2_before, sb_str(&d2)))
		{
			char sig[128];
			snprintf(sig, sizeof sig, "%s:operation-altered-second-object", W_->kind);
			mc_violation(sig, "the patch/second object changed: %.200s -> %.200s", pre2_before, sb_str(&d2));
		}
	}
	free(pre2_before);
	/* the failure left everything as it was, so the same call - now with memory available - must
	 * behave exactly like the fault-free run (hidden damage left behind by the failed attempt,
	 * e.g. a capacity field updated before the failed growth, shows up here) */
	if (st == R_FAIL && fired && !patch_failed_inplace && !patch_like_partial && baseline[w] && mc_violations() == viol_before &&
	    strcmp(W_->kind, "format") != 0 /* that workload undoes its own set-up at the end */)
	{
		mc_phase = "retry";
		sb_reset(&c.res);
		int st2 = W_->op(&c);
		if (st2 == R_OK && c.out && c.res.n == 0)
			vf_dump(c.out, &c.res, DUMP_SER);
		else if (st2 == R_OK && c.out)
		{
			sb_t ser = {0};
			vf_dump(c.out, &ser, DUMP_SER);
			sb_puts(&c.res, " serialized=");
			sb_put(&c.res, ser.p ? ser.p : "", ser.n);
			sb_free(&ser);
		}
		if (st2 != R_OK)
		{
			char sig[128];
			snprintf(sig, sizeof sig, "%s:retry-after-clean-failure-fails", W_->kind);
			mc_violation(sig, "after the clean failure the same call, with memory available, does not succeed");
		}
		else if (strcmp(baseline[w], sb_str(&c.res)))
		{
			char sig[128];
			snprintf(sig, sizeof sig, "%s:retry-after-clean-failure-differs", W_->kind);
			mc_violation(sig, "after the clean failure the same call gives %.200s; the fault-free run gives %.200s", sb_str(&c.res), baseline[w]);
		}
		mc_phase = "after-op";
	}
	patch_failed_inplace = 0;
	patch_like_partial = 0;
	if (c.val && c.val_owned)
	{
		/* the caller still owns the value: it must be intact and releasable */
		const char *s = json_object_get_string(c.val);
		if (!s || strcmp(s, "the value"))
			mc_violation("value-corrupted-after-failure", "the value handed to a failed operation no longer reads back");
		json_object_put(c.val);
	}
	mc_phase = "release";
	json_object_put(c.out);
	json_object_put(c.pre);
	json_object_put(c.pre2);
	sb_free(&c.res);
	mc_phase = "";
	mc_outcome(mc_hash(&st, sizeof st, (uint64_t)w * 1000 + (uint64_t)(k1 < 900 ? k1 : 900)));
	if (vf_live() != live0)
	{
		char sig[128];
		snprintf(sig, sizeof sig, "%s:leak", W_->kind);
		sb_t l = {0};
		vf_live_dump(&l, 6);
		mc_violation(sig, "%ld blocks leaked (operation %s) %s", vf_live() - live0, st == R_OK ? "succeeded" : st == R_FAIL ? "failed cleanly" : "misbehaved", sb_str(&l));
		sb_free(&l);
		mc_restart_worker();
	}
	if (vf_locale_live() != 0)
	{
		mc_violation("locale-object-leak", "%ld locale objects not released", vf_locale_live());
		mc_restart_worker();
	}
	return n;
}

static void enumerate(void)
{
	int pairs_max = mc_tier ? 100000 : 45;
	build_workloads();
	for (int w = 0; w < NWL; w++)
	{
		/* fault-free run: every shard needs the baseline */
		long n = run_one(w, 0, 0);
		if (mc_shard == 0)
			MC_COUNT("workloads", 1);
		for (long k = 1; k <= n; k++)
		{
			if (!mc_case_begin())
				continue;
			MC_COUNT("calls", 1);
			MC_COUNT("single_faults", 1);
			run_one(w, k, 0);
			char nm[64];
			snprintf(nm, sizeof nm, "%d/%ld", w, k);
			mc_nontrivial(mc_hash_str(nm));
			mc_sample_current();
		}
		if (n <= pairs_max)
			for (long k1 = 1; k1 <= n; k1++)
				for (long k2 = k1 + 1; k2 <= n; k2++)
				{
					if (mc_deadline())
						return;
					if (!mc_case_begin())
						continue;
					MC_COUNT("calls", 1);
					MC_COUNT("double_faults", 1);
					run_one(w, k1, k2);
				}
	}
}
static int replay(const char *desc)
{
	long w = 0, k1 = 0, k2 = 0;
	mc_desc_int(desc, "workload", &w);
	mc_desc_int(desc, "k1", &k1);
	mc_desc_int(desc, "k2", &k2);
	build_workloads();
	run_one((int)w, 0, 0);
	printf("fault-free: %ld allocation calls, result %.200s\n", nallocs[w], baseline[w] ? baseline[w] : "(failure)");
	run_one((int)w, k1, k2);
	return (int)mc_violations();
}
int main(int argc, char **argv)
{
	struct mc_harness h = {"c08", enumerate, describe, replay};
	return mc_main(argc, argv, &h);
}
