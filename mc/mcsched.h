/* Controlled scheduler for C18 (see sched.c). */
#ifndef SCHED_H
#define SCHED_H
#include <stddef.h>
#define SCHED_MAXT 4
#define SCHED_MAXPOINTS 2048
enum
{
	SCHED_OK = 0,
	SCHED_ORACLE = 1,       /* the harness body's oracle failed */
	SCHED_USE_AFTER_FREE = 2,
	SCHED_DEADLOCK = 3,
	SCHED_DIVERGED = 4      /* replay divergence: harness error, not a violation */
};
struct sched_point
{
	unsigned char n_enabled, chosen, cur_enabled, tid;
};
struct sched_shared
{
	int nprefix;
	unsigned char prefix[SCHED_MAXPOINTS];
	int npoints;
	struct sched_point pt[SCHED_MAXPOINTS];
	int result;
	char msg[512];
	long n_races;
	char race_msg[600];
	int overflow;
	long accesses;
	unsigned long long outcome; /* hash of the observable end state */
};
void sched_init(struct sched_shared *sh);
int sched_spawn(void (*fn)(void *), void *arg);
void sched_release(void);
void sched_join(int tid);
void sched_finish(void);
int sched_tid(void);
void sched_fail(int code, const char *msg);
void sched_share_block(void *p, size_t size);
#endif
