/* Controlled scheduler + happens-before race monitor for C18.
 *
 * The json-c objects are compiled by clang's ThreadSanitizer pass (-O0,
 * -tsan-instrument-read-before-write) but linked against THIS file instead of
 * the TSan runtime: every load, store and atomic of the library calls one of the
 * __tsan_* functions below.  Real pthreads are serialized by a baton; every
 * access to shared memory and every atomic is a scheduling point whose choice
 * comes from the explorer (prefix replay, then "keep running").
 *
 * This translation unit must not be instrumented. */
#ifndef _GNU_SOURCE
#define _GNU_SOURCE
#endif
#include "mcsched.h"
#include "mc.h"
#include <pthread.h>
#include <semaphore.h>
#include <stdint.h>
#include <stdlib.h>
#include <string.h>
#include <unistd.h>

static struct sched_shared *SH;
static __thread int my_tid = 0;
static int nthreads = 1; /* including main (tid 0) */
static int active;       /* scheduling points are live */
static int finished[SCHED_MAXT], blocked_on[SCHED_MAXT];
static sem_t sem[SCHED_MAXT];
static pthread_t pth[SCHED_MAXT];
static void (*tfn[SCHED_MAXT])(void *);
static void *targ[SCHED_MAXT];
static int current;
static __thread int in_hook;

/* ---------- shared memory regions ---------- */
extern char __data_start, _end;
struct region
{
	uintptr_t start, size;
	int freed, freed_by;
};
static struct region regions[256];
static int nregions;

void sched_share_block(void *p, size_t size)
{
	if (nregions < 256)
	{
		regions[nregions].start = (uintptr_t)p;
		regions[nregions].size = size;
		regions[nregions].freed = 0;
		nregions++;
	}
}
static void on_free(void *p, size_t size)
{
	(void)size;
	for (int i = 0; i < nregions; i++)
		if (regions[i].start == (uintptr_t)p && !regions[i].freed)
		{
			regions[i].freed = 1;
			regions[i].freed_by = my_tid;
		}
}
static int alloc_epoch_shared = 1;
static void on_alloc(void *p, size_t size)
{
	/* everything allocated before the threads are released is shared */
	if (alloc_epoch_shared)
		sched_share_block(p, size);
}
static int classify(uintptr_t a)
{
	/* 0 private, 1 shared live, 2 shared but freed */
	for (int i = 0; i < nregions; i++)
		if (a >= regions[i].start && a < regions[i].start + regions[i].size)
			return regions[i].freed ? 2 : 1;
	if (a >= (uintptr_t)&__data_start && a < (uintptr_t)&_end)
		return 1;
	return 0;
}

static void fail(int code, const char *fmt, ...)
{
	if (SH->result)
		return;
	va_list ap;
	va_start(ap, fmt);
	vsnprintf(SH->msg, sizeof SH->msg, fmt, ap);
	va_end(ap);
	SH->result = code;
}
void sched_fail(int code, const char *msg)
{
	fail(code, "%s", msg);
}

/* ---------- vector clocks ---------- */
static uint32_t vc[SCHED_MAXT][SCHED_MAXT];
struct cell
{
	uintptr_t addr; /* 4-byte granule address; 0 = empty */
	int wr_tid, wr_atomic;
	uint32_t wr_clk;
	uint32_t rd_clk[SCHED_MAXT];
	unsigned char rd_atomic[SCHED_MAXT], rd_valid[SCHED_MAXT];
	uint32_t L[SCHED_MAXT]; /* release clock of the last atomic on this word */
	const void *wr_pc, *rd_pc[SCHED_MAXT];
};
#define NCELL 4096
static struct cell cells[NCELL];
static struct cell *cell_of(uintptr_t g)
{
	size_t h = (size_t)((g >> 2) * 2654435761u) & (NCELL - 1);
	for (int k = 0; k < NCELL; k++)
	{
		struct cell *c = &cells[(h + (size_t)k) & (NCELL - 1)];
		if (c->addr == g)
			return c;
		if (!c->addr)
		{
			c->addr = g;
			c->wr_tid = -1;
			return c;
		}
	}
	return NULL;
}
static void report_race(uintptr_t g, int t, int is_write, int is_atomic, int u, const char *other, const void *pc, const void *opc)
{
	if (SH->n_races++ == 0)
		snprintf(SH->race_msg, sizeof SH->race_msg,
		         "data race on address %#lx (%s): thread %d %s%s at pc %p is unordered with a %s by thread %d at pc %p", (unsigned long)g,
		         classify(g) == 1 && g >= (uintptr_t)&__data_start && g < (uintptr_t)&_end ? "global/static" : "heap object shared between the threads", t,
		         is_atomic ? "atomic " : "plain ", is_write ? "write" : "read", pc, other, u, opc);
}
static void monitor(uintptr_t a, int size, int is_write, int is_atomic, const void *pc)
{
	int t = my_tid;
	for (uintptr_t g = a & ~(uintptr_t)3; g < a + (uintptr_t)size; g += 4)
	{
		struct cell *c = cell_of(g);
		if (!c)
			return;
		if (is_atomic)
			for (int k = 0; k < SCHED_MAXT; k++)
				if (c->L[k] > vc[t][k])
					vc[t][k] = c->L[k];
		/* previous write */
		if (c->wr_tid >= 0 && c->wr_tid != t && c->wr_clk > vc[t][c->wr_tid] && !(is_atomic && c->wr_atomic))
			report_race(g, t, is_write, is_atomic, c->wr_tid, c->wr_atomic ? "atomic write" : "plain write", pc, c->wr_pc);
		if (is_write)
		{
			for (int u = 0; u < SCHED_MAXT; u++)
				if (u != t && c->rd_valid[u] && c->rd_clk[u] > vc[t][u] && !(is_atomic && c->rd_atomic[u]))
					report_race(g, t, is_write, is_atomic, u, c->rd_atomic[u] ? "atomic read" : "plain read", pc, c->rd_pc[u]);
			c->wr_tid = t;
			c->wr_clk = vc[t][t];
			c->wr_atomic = is_atomic;
			c->wr_pc = pc;
		}
		else
		{
			c->rd_valid[t] = 1;
			c->rd_clk[t] = vc[t][t];
			c->rd_atomic[t] = (unsigned char)is_atomic;
			c->rd_pc[t] = pc;
		}
		if (is_atomic)
		{
			for (int k = 0; k < SCHED_MAXT; k++)
				if (vc[t][k] > c->L[k])
					c->L[k] = vc[t][k];
		}
	}
	if (is_atomic)
		vc[t][t]++;
}

/* ---------- scheduling ---------- */
static int enabled(int t)
{
	if (t >= nthreads || finished[t])
		return 0;
	if (blocked_on[t] >= 0 && !finished[blocked_on[t]])
		return 0;
	return 1;
}
static void switch_to(int next)
{
	int me = my_tid;
	if (next == me)
		return;
	current = next;
	sem_post(&sem[next]);
	if (!finished[me])
		while (sem_wait(&sem[me]) != 0)
		{
		}
}
/* a scheduling point; the running thread may itself be disabled (blocked in join / finished) */
static void point(void)
{
	int me = my_tid;
	int list[SCHED_MAXT], n = 0;
	int me_enabled = enabled(me);
	if (me_enabled)
		list[n++] = me;
	for (int t = 0; t < nthreads; t++)
		if (t != me && enabled(t))
			list[n++] = t;
	if (n == 0)
	{
		fail(SCHED_DEADLOCK, "deadlock: no thread can run");
		_exit(0);
	}
	int idx = 0;
	if (n > 1)
	{
		int i = SH->npoints;
		if (i >= SCHED_MAXPOINTS)
		{
			SH->overflow = 1;
			idx = 0;
		}
		else
		{
			if (i < SH->nprefix)
			{
				idx = SH->prefix[i];
				if (idx >= n)
				{
					fail(SCHED_DIVERGED, "replay divergence at point %d: choice %d of %d enabled threads", i, idx, n);
					_exit(0);
				}
			}
			SH->pt[i].n_enabled = (unsigned char)n;
			SH->pt[i].chosen = (unsigned char)idx;
			SH->pt[i].cur_enabled = (unsigned char)me_enabled;
			SH->pt[i].tid = (unsigned char)list[idx];
			SH->npoints = i + 1;
		}
	}
	switch_to(list[idx]);
}

static void on_access(void *addr, int size, int is_write, int is_atomic, const void *pc)
{
	if (!active || in_hook)
		return;
	int cls = classify((uintptr_t)addr);
	if (cls == 0)
		return;
	in_hook = 1;
	if (cls == 2)
		fail(SCHED_USE_AFTER_FREE, "thread %d %s %d bytes at %p inside a block that thread was already freed (pc %p)", my_tid, is_write ? "writes" : "reads", size, addr, pc);
	SH->accesses++;
	point();
	if (!is_atomic || is_atomic == 1)
		monitor((uintptr_t)addr, size, is_write, is_atomic, pc);
	in_hook = 0;
}

static void *thread_main(void *arg)
{
	int t = (int)(intptr_t)arg;
	my_tid = t;
	while (sem_wait(&sem[t]) != 0)
	{
	}
	tfn[t](targ[t]);
	in_hook = 1;
	finished[t] = 1;
	vc[t][t]++;
	if (active)
		point(); /* hands the baton on; never returns to a finished thread */
	return NULL;
}

void sched_init(struct sched_shared *sh)
{
	SH = sh;
	my_tid = 0;
	nthreads = 1;
	current = 0;
	active = 0;
	memset(finished, 0, sizeof finished);
	for (int i = 0; i < SCHED_MAXT; i++)
	{
		blocked_on[i] = -1;
		sem_init(&sem[i], 0, 0);
	}
	memset(vc, 0, sizeof vc);
	vc[0][0] = 1;
	nregions = 0;
	alloc_epoch_shared = 1;
	vf_quarantine = 1;
	vf_free_hook = on_free;
	vf_alloc_hook = on_alloc;
}
int sched_spawn(void (*fn)(void *), void *arg)
{
	int t = nthreads;
	if (t >= SCHED_MAXT)
		abort();
	tfn[t] = fn;
	targ[t] = arg;
	/* happens-before: everything the parent did so far */
	memcpy(vc[t], vc[0], sizeof vc[t]);
	vc[t][t] = 1;
	vc[my_tid][my_tid]++;
	nthreads++;
	pthread_create(&pth[t], NULL, thread_main, (void *)(intptr_t)t);
	return t;
}
void sched_release(void)
{
	alloc_epoch_shared = 0;
	active = 1;
	in_hook = 1;
	point(); /* who runs first is the first choice */
	in_hook = 0;
}
void sched_join(int t)
{
	in_hook = 1;
	while (!finished[t])
	{
		blocked_on[my_tid] = t;
		point();
	}
	blocked_on[my_tid] = -1;
	for (int k = 0; k < SCHED_MAXT; k++)
		if (vc[t][k] > vc[my_tid][k])
			vc[my_tid][k] = vc[t][k];
	in_hook = 0;
}
void sched_finish(void)
{
	active = 0;
	for (int t = 1; t < nthreads; t++)
		pthread_join(pth[t], NULL);
}
int sched_tid(void)
{
	return my_tid;
}

/* ---------- the ThreadSanitizer callback interface ---------- */
#define PC __builtin_return_address(0)
void __tsan_init(void)
{
}
void __tsan_func_entry(void *pc)
{
	(void)pc;
}
void __tsan_func_exit(void)
{
}
#define RW(n)                                    \
	void __tsan_read##n(void *a)                 \
	{                                            \
		on_access(a, n, 0, 0, PC);               \
	}                                            \
	void __tsan_write##n(void *a)                \
	{                                            \
		on_access(a, n, 1, 0, PC);               \
	}                                            \
	void __tsan_unaligned_read##n(void *a)       \
	{                                            \
		on_access(a, n, 0, 0, PC);               \
	}                                            \
	void __tsan_unaligned_write##n(void *a)      \
	{                                            \
		on_access(a, n, 1, 0, PC);               \
	}
RW(1)
RW(2)
RW(4)
RW(8)
RW(16)
void __tsan_read_range(void *a, unsigned long n)
{
	on_access(a, (int)(n > 64 ? 64 : n), 0, 0, PC);
}
void __tsan_write_range(void *a, unsigned long n)
{
	on_access(a, (int)(n > 64 ? 64 : n), 1, 0, PC);
}
void __tsan_vptr_update(void **a, void *b)
{
	(void)a;
	(void)b;
}
void __tsan_vptr_read(void **a)
{
	(void)a;
}
/* volatile accesses are instrumented as plain ones by some versions */
void __tsan_volatile_read4(void *a)
{
	on_access(a, 4, 0, 0, PC);
}
void __tsan_volatile_write4(void *a)
{
	on_access(a, 4, 1, 0, PC);
}
void __tsan_volatile_read8(void *a)
{
	on_access(a, 8, 0, 0, PC);
}
void __tsan_volatile_write8(void *a)
{
	on_access(a, 8, 1, 0, PC);
}

#define ATOMIC_RMW(bits, type, name, builtin)                                   \
	type __tsan_atomic##bits##_##name(volatile type *a, type v, int mo)          \
	{                                                                            \
		(void)mo;                                                                \
		on_access((void *)(uintptr_t)a, bits / 8, 1, 1, PC);                     \
		return builtin(a, v, __ATOMIC_SEQ_CST);                                  \
	}
ATOMIC_RMW(32, uint32_t, fetch_add, __atomic_fetch_add)
ATOMIC_RMW(32, uint32_t, fetch_sub, __atomic_fetch_sub)
ATOMIC_RMW(64, uint64_t, fetch_add, __atomic_fetch_add)
ATOMIC_RMW(64, uint64_t, fetch_sub, __atomic_fetch_sub)
ATOMIC_RMW(32, uint32_t, exchange, __atomic_exchange_n)
ATOMIC_RMW(64, uint64_t, exchange, __atomic_exchange_n)
uint32_t __tsan_atomic32_load(const volatile uint32_t *a, int mo)
{
	(void)mo;
	on_access((void *)(uintptr_t)a, 4, 0, 1, PC);
	return __atomic_load_n(a, __ATOMIC_SEQ_CST);
}
uint64_t __tsan_atomic64_load(const volatile uint64_t *a, int mo)
{
	(void)mo;
	on_access((void *)(uintptr_t)a, 8, 0, 1, PC);
	return __atomic_load_n(a, __ATOMIC_SEQ_CST);
}
void __tsan_atomic32_store(volatile uint32_t *a, uint32_t v, int mo)
{
	(void)mo;
	on_access((void *)(uintptr_t)a, 4, 1, 1, PC);
	__atomic_store_n(a, v, __ATOMIC_SEQ_CST);
}
void __tsan_atomic64_store(volatile uint64_t *a, uint64_t v, int mo)
{
	(void)mo;
	on_access((void *)(uintptr_t)a, 8, 1, 1, PC);
	__atomic_store_n(a, v, __ATOMIC_SEQ_CST);
}
/* compare-and-swap: a scheduling point first; a failed CAS is an atomic read, a successful one a write */
uint32_t __tsan_atomic32_compare_exchange_val(volatile uint32_t *a, uint32_t expected, uint32_t desired, int mo, int fmo)
{
	(void)mo;
	(void)fmo;
	on_access((void *)(uintptr_t)a, 4, 0, 2, PC);
	uint32_t old = expected;
	int ok = __atomic_compare_exchange_n(a, &old, desired, 0, __ATOMIC_SEQ_CST, __ATOMIC_SEQ_CST);
	if (active && classify((uintptr_t)a))
	{
		in_hook = 1;
		monitor((uintptr_t)a, 4, ok, 1, PC);
		in_hook = 0;
	}
	return old;
}
uint64_t __tsan_atomic64_compare_exchange_val(volatile uint64_t *a, uint64_t expected, uint64_t desired, int mo, int fmo)
{
	(void)mo;
	(void)fmo;
	on_access((void *)(uintptr_t)a, 8, 0, 2, PC);
	uint64_t old = expected;
	int ok = __atomic_compare_exchange_n(a, &old, desired, 0, __ATOMIC_SEQ_CST, __ATOMIC_SEQ_CST);
	if (active && classify((uintptr_t)a))
	{
		in_hook = 1;
		monitor((uintptr_t)a, 8, ok, 1, PC);
		in_hook = 0;
	}
	return old;
}
int __tsan_atomic32_compare_exchange_strong(volatile uint32_t *a, uint32_t *expected, uint32_t desired, int mo, int fmo)
{
	uint32_t old = __tsan_atomic32_compare_exchange_val(a, *expected, desired, mo, fmo);
	if (old == *expected)
		return 1;
	*expected = old;
	return 0;
}
void __tsan_atomic_thread_fence(int mo)
{
	(void)mo;
}
void __tsan_atomic_signal_fence(int mo)
{
	(void)mo;
}
