/*
 * mc - shared machinery for the bounded exhaustive exploration harnesses.
 * See /verif/DESIGN.md section 2.
 */
#ifndef MC_H
#define MC_H
#include <stddef.h>
#include <stdint.h>
#include <stdio.h>
#include <stdarg.h>

struct json_object;

/* ---------- growable string ---------- */
typedef struct sb
{
	char *p;
	size_t n, cap;
	int fixed; /* never realloc (signal-handler safe) */
} sb_t;
void sb_init_fixed(sb_t *s, char *buf, size_t cap);
void sb_reset(sb_t *s);
void sb_putc(sb_t *s, char c);
void sb_put(sb_t *s, const void *p, size_t n);
void sb_puts(sb_t *s, const char *z);
void sb_printf(sb_t *s, const char *fmt, ...) __attribute__((format(printf, 2, 3)));
void sb_hex(sb_t *s, const void *p, size_t n);
void sb_free(sb_t *s);
const char *sb_str(sb_t *s);

/* ---------- harness runtime ---------- */
struct mc_harness
{
	const char *name;
	void (*enumerate)(void);       /* explore everything for this shard */
	void (*describe)(sb_t *out);   /* describe the current case (no malloc) */
	int (*replay)(const char *desc); /* re-run one case; returns #violations */
};
int mc_main(int argc, char **argv, struct mc_harness *h);

extern int mc_errno_pre;
extern int mc_tier;             /* 0 quick, 1 thorough */
extern int mc_shard, mc_nshards;
extern int mc_replaying;
extern const char *mc_phase;    /* set by harnesses before risky calls: appended to crash signatures */
extern int mc_verbose;

/* every case (execution / explored state / input) is announced; returns 1 when
 * this shard must run it (round-robin on the case counter, after the restart
 * point of a crashed worker). */
int mc_case_begin(void);
/* same, without the round-robin test (caller shards by mc_mine).  Returns 2 (and sets mc_muted)
 * for cases judged before a worker restart that must be re-executed to rebuild exploration state. */
int mc_case_begin_all(void);
extern int mc_muted;
/* shard selector for harnesses that shard on something else than the case counter */
int mc_mine(uint64_t k);

int mc_stat_slot(const char *name);
void mc_stat_add(int slot, long n);
void mc_stat_max(int slot, long v);
#define MC_COUNT(name, n)                   \
	do                                  \
	{                                   \
		static int _slot = -1;      \
		if (_slot < 0)              \
			_slot = mc_stat_slot(name); \
		mc_stat_add(_slot, (n));    \
	} while (0)
#define MC_MAX(name, v)                     \
	do                                  \
	{                                   \
		static int _slot = -1;      \
		if (_slot < 0)              \
			_slot = mc_stat_slot("max:" name); \
		mc_stat_max(_slot, (v));    \
	} while (0)

void mc_outcome(uint64_t h);          /* distinct observed outcomes */
void mc_nontrivial(uint64_t h);       /* distinct non-trivial cases  */
void mc_sample(const char *s);        /* keeps the first few and the latest */
void mc_sample_current(void);         /* sample = describe() of the current case */
void mc_violation(const char *sig, const char *fmt, ...) __attribute__((format(printf, 2, 3)));
long mc_violations(void);
void mc_restart_worker(void);
int mc_deadline(void);                /* 1 when the global deadline has passed */
void mc_not_exhaustive(const char *why);
void mc_note(const char *fmt, ...) __attribute__((format(printf, 1, 2)));

const char *mc_opt(const char *key, const char *dflt);
long mc_opt_int(const char *key, long dflt);

uint64_t mc_hash(const void *p, size_t n, uint64_t seed);
uint64_t mc_hash_str(const char *z);

/* descriptor helpers: "k=v k2=hex ..." */
int mc_desc_int(const char *desc, const char *key, long *out);
int mc_desc_u64(const char *desc, const char *key, uint64_t *out);
int mc_desc_hex(const char *desc, const char *key, unsigned char *buf, size_t cap, size_t *len);
int mc_desc_str(const char *desc, const char *key, char *buf, size_t cap);

/* buffer whose end abuts a PROT_NONE page: a one-byte over-read faults */
char *mc_guard_buf(size_t len);
#define MC_GUARD_MAX (1 << 20)

/* ---------- allocation / environment seams ---------- */
void vf_counters_reset(void);
long vf_live(void);
long vf_live_bytes(void);
long vf_alloc_calls(void);           /* allocation-like calls since reset */
void vf_fail_plan(long k1, long k2); /* fail the k1-th and k2-th allocation call (1-based; 0 = none) */
int vf_fail_fired(void);
const char *vf_fail_kinds(void);      /* one letter per injected failure: m malloc/strdup/vasprintf, c calloc, r realloc, l locale */
extern int vf_quarantine;
extern int vf_threaded; /* lock the allocator bookkeeping (free-running threads) */
extern void (*vf_free_hook)(void *p, size_t size);
extern void (*vf_alloc_hook)(void *p, size_t size);
long vf_peak_live(void);
void vf_peak_reset(void);
int vf_is_live(const void *p);
size_t vf_block_size(const void *p);
long vf_locale_live(void);
void vf_live_dump(sb_t *out, int max);
/* block serial numbers, to canonicalise addresses */
long vf_block_serial(const void *p);

/* in-memory descriptor table (C20) */
struct vf_fd_script
{
	/* answers for successive read()/write() calls: >0 = transfer at most that many bytes,
	 * 0 = default (transfer everything asked), <0 = fail with errno = -value */
	int answers[64];
	int n_answers;
	int calls;            /* calls made so far */
	int open_fail_errno;  /* next vf_open fails with this errno when non-zero */
};
extern struct vf_fd_script vf_fds;
void vf_fd_reset(void);
int vf_fd_new_input(const void *data, size_t len);  /* returns an fd to read from */
int vf_fd_new_output(void);                         /* returns an fd that records writes */
const unsigned char *vf_fd_output(int fd, size_t *len);
/* the seam functions themselves, for harness code that wants to go through them */
void *vf_malloc(size_t n);
void vf_free(void *p);
char *vf_strdup(const char *s);
int vf_close(int fd);
void vf_fd_set_file(const char *path, const void *data, size_t len); /* path visible to vf_open */
const unsigned char *vf_fd_file_output(const char *path, size_t *len);
int vf_fd_open_count(void);
extern int (*vf_io_choice)(int is_write, size_t asked); /* optional per-call chooser */

/* arc4random scripting */
extern uint32_t vf_seed_values[8];
extern int vf_seed_n, vf_seed_calls;

/* ---------- typed dump of a json-c tree through the public API ---------- */
#define DUMP_SER 1   /* append serialized text of doubles (retained text visible) */
#define DUMP_ADDR 2  /* append block serial of each node */
void vf_dump(struct json_object *o, sb_t *out, int flags);

/* ---------- value model ---------- */
typedef enum
{
	V_NULL,
	V_BOOL,
	V_INT,
	V_DBL,
	V_STR,
	V_ARR,
	V_OBJ
} vkind;
typedef struct V
{
	vkind k;
	int b;          /* bool */
	int neg;        /* int: sign */
	uint64_t mag;   /* int: magnitude */
	int over;       /* int: magnitude beyond 64 bits in the source text (saturated) */
	double d;
	const char *numtext; /* double: the source spelling, or NULL */
	const unsigned char *s;
	size_t slen;
	struct V **items; /* array elements / object values */
	const unsigned char **keys;
	size_t *klens;
	size_t n;
} V;

void va_reset(void);                 /* free every V made since the last reset */
void *va_alloc(size_t n);
typedef struct
{
	void *chunk;
	size_t used;
} va_mark_t;
va_mark_t va_mark(void);       /* nested scopes: everything allocated after the mark ... */
void va_release(va_mark_t m);  /* ... is freed here */
V *v_null(void);
V *v_bool(int b);
V *v_int(int neg, uint64_t mag);
V *v_i64(int64_t v);
V *v_dbl(double d);
V *v_dbls(double d, const char *text);
V *v_str(const void *s, size_t n);
V *v_strz(const char *z);
V *v_arr(size_t n);                  /* n slots, filled by caller */
V *v_obj(size_t n);
void v_obj_set(V *o, size_t i, const void *k, size_t klen, V *val);
/* ordered-map insertion with json-c semantics (first-occurrence position, last value) */
V *v_obj_put(V *o, const void *k, size_t klen, V *val);
V *v_arr_push(V *a, V *val);
void v_dump(const V *v, sb_t *out, int flags);   /* same format as vf_dump */
int v_equal(const V *a, const V *b);              /* value equality per C09 */
struct json_object *v_build(const V *v);          /* through the json-c API */
V *v_from_json(struct json_object *o);            /* through the public accessors */
void v_print(const V *v, sb_t *out);              /* canonical RFC 8259 text, no whitespace */
V *v_clone(const V *v);

/* reference RFC 8259 reader */
#define RR_OK 0
#define RR_SYNTAX 1
#define RR_RANGE 2   /* integer beyond 64 bits (only reported when strict_range) */
#define RR_DEPTH 3
struct rr_opts
{
	int strict_range;   /* integers beyond 64 bits are an error instead of saturating */
	int max_depth;      /* 0 = unlimited; else json-c semantics: value enclosed by > max_depth-1 containers fails */
	int allow_trailing; /* stop after the value instead of requiring end of text */
	int cstring_keys;   /* truncate member names at the first NUL (json-c API limitation) */
};
struct rr_result
{
	int status;
	V *value;
	size_t end;         /* offset after the value (and trailing whitespace when !allow_trailing) */
	size_t err_pos;     /* RR_DEPTH: offset of the first byte of the first too-deep value */
	int max_enclosure;  /* deepest enclosure of any value */
	int had_nul_key;
};
void rr_parse(const unsigned char *t, size_t n, const struct rr_opts *o, struct rr_result *r);

/* token list (for C02 flag-invariance and C16 position computation) */
typedef struct rr_token
{
	int kind; /* '{' '}' '[' ']' ',' ':' 's'tring 'k'ey 'n'umber 't'rue 'f'alse 'z' null */
	size_t start, end;
} rr_token;
int rr_tokens(const unsigned char *t, size_t n, rr_token *out, int cap);

/* ---------- complete tree families T(depth, width, leaves, keys) ---------- */
struct vfam
{
	int width;
	V **leaves;
	int nleaves;
	const char **keys;
	int nkeys;
	int dup_keys;      /* 1: objects may repeat a name (text-level families); 0: distinct names only (API-built) */
	uint64_t count[5]; /* count[d] = number of values of nesting <= d (filled by vfam_init) */
};
void vfam_init(struct vfam *f, int maxdepth);
V *vfam_get(const struct vfam *f, int depth, uint64_t idx);

/* ---------- explicit-state BFS over operation histories (replayed on fresh objects) ---------- */
#define BFS_MAXD 20
struct bfs_cb
{
	void *(*fresh)(void);                        /* new object + model in the initial state */
	void (*apply)(void *st, int op, int check);  /* check=1: execute with the oracle; 0: silent replay */
	int (*menu)(void *st, int *ops, int cap);    /* operations enabled in this state */
	uint64_t (*key)(void *st);                   /* exact canonical key of the state (merge only) */
	void (*destroy)(void *st, int check);        /* release everything; check=1: leak/drain oracle */
	void (*opname)(int op, sb_t *out);
};
struct bfs_stats
{
	long states, transitions, max_depth_done;
};
extern int bfs_cur_hist[BFS_MAXD + 1], bfs_cur_n; /* the history being executed (for describe) */
extern int bfs_shard_mode;
void bfs_describe(const struct bfs_cb *cb, sb_t *out);
/* explores to maxdepth; first_op_shard: histories are partitioned over shards by their first operation */
void bfs_run(const struct bfs_cb *cb, int maxdepth, long maxstates, struct bfs_stats *st);
/* replays "ops=a,b,c" with checks on; returns 0 */
void bfs_replay(const struct bfs_cb *cb, const char *desc);

#endif
