/* Value model, typed dump, reference RFC 8259 reader.  See mc.h / DESIGN.md 2.4-2.5. */
#ifndef _GNU_SOURCE
#define _GNU_SOURCE
#endif
#include "mc.h"
#include <errno.h>
#include <math.h>
#include <stdlib.h>
#include <string.h>

#include "json.h"

/* ---------- arena ---------- */
struct chunk
{
	struct chunk *next;
	size_t used, cap;
	char data[];
};
static struct chunk *arena, *spare;
void va_reset(void)
{
	/* keep one chunk around to avoid malloc churn in tight enumeration loops */
	while (arena)
	{
		struct chunk *n = arena->next;
		if (!spare && arena->cap == (1 << 16))
		{
			spare = arena;
			spare->next = NULL;
			spare->used = 0;
		}
		else
			free(arena);
		arena = n;
	}
}
void *va_alloc(size_t n)
{
	n = (n + 15) & ~(size_t)15;
	if (!arena || arena->used + n > arena->cap)
	{
		size_t cap = n > (1 << 16) ? n : (1 << 16);
		struct chunk *c;
		if (spare && cap == (1 << 16))
		{
			c = spare;
			spare = NULL;
		}
		else
			c = malloc(sizeof *c + cap);
		if (!c)
			abort();
		c->cap = cap;
		c->used = 0;
		c->next = arena;
		arena = c;
	}
	void *p = arena->data + arena->used;
	arena->used += n;
	memset(p, 0, n);
	return p;
}

va_mark_t va_mark(void)
{
	va_mark_t m = {arena, arena ? arena->used : 0};
	return m;
}
void va_release(va_mark_t m)
{
	while (arena && arena != m.chunk)
	{
		struct chunk *n = arena->next;
		if (!spare && arena->cap == (1 << 16))
		{
			spare = arena;
			spare->next = NULL;
		}
		else
			free(arena);
		arena = n;
	}
	if (arena)
		arena->used = m.used;
}

static V *v_new(vkind k)
{
	V *v = va_alloc(sizeof *v);
	v->k = k;
	return v;
}
V *v_null(void)
{
	return v_new(V_NULL);
}
V *v_bool(int b)
{
	V *v = v_new(V_BOOL);
	v->b = !!b;
	return v;
}
V *v_int(int neg, uint64_t mag)
{
	V *v = v_new(V_INT);
	v->neg = mag ? !!neg : 0;
	v->mag = mag;
	return v;
}
V *v_i64(int64_t x)
{
	if (x < 0)
		return v_int(1, (uint64_t)0 - (uint64_t)x);
	return v_int(0, (uint64_t)x);
}
V *v_dbl(double d)
{
	V *v = v_new(V_DBL);
	v->d = d;
	return v;
}
V *v_dbls(double d, const char *text)
{
	V *v = v_dbl(d);
	if (text)
	{
		size_t n = strlen(text) + 1;
		char *c = va_alloc(n);
		memcpy(c, text, n);
		v->numtext = c;
	}
	return v;
}
V *v_str(const void *s, size_t n)
{
	V *v = v_new(V_STR);
	unsigned char *c = va_alloc(n + 1);
	memcpy(c, s, n);
	c[n] = 0;
	v->s = c;
	v->slen = n;
	return v;
}
V *v_strz(const char *z)
{
	return v_str(z, strlen(z));
}
V *v_arr(size_t n)
{
	V *v = v_new(V_ARR);
	v->n = n;
	v->items = va_alloc((n + 1) * sizeof(V *));
	return v;
}
V *v_obj(size_t n)
{
	V *v = v_new(V_OBJ);
	v->n = n;
	v->items = va_alloc((n + 1) * sizeof(V *));
	v->keys = va_alloc((n + 1) * sizeof(char *));
	v->klens = va_alloc((n + 1) * sizeof(size_t));
	return v;
}
void v_obj_set(V *o, size_t i, const void *k, size_t klen, V *val)
{
	unsigned char *c = va_alloc(klen + 1);
	memcpy(c, k, klen);
	c[klen] = 0;
	o->keys[i] = c;
	o->klens[i] = klen;
	o->items[i] = val;
}
V *v_obj_put(V *o, const void *k, size_t klen, V *val)
{
	for (size_t i = 0; i < o->n; i++)
		if (o->klens[i] == klen && !memcmp(o->keys[i], k, klen))
		{
			o->items[i] = val;
			return o;
		}
	/* grow (arena: copy) */
	size_t n = o->n;
	V **ni = va_alloc((n + 2) * sizeof(V *));
	const unsigned char **nk = va_alloc((n + 2) * sizeof(char *));
	size_t *nl = va_alloc((n + 2) * sizeof(size_t));
	if (n)
	{
		memcpy(ni, o->items, n * sizeof(V *));
		memcpy(nk, o->keys, n * sizeof(char *));
		memcpy(nl, o->klens, n * sizeof(size_t));
	}
	o->items = ni;
	o->keys = nk;
	o->klens = nl;
	o->n = n + 1;
	v_obj_set(o, n, k, klen, val);
	return o;
}
V *v_arr_push(V *a, V *val)
{
	size_t n = a->n;
	V **ni = va_alloc((n + 2) * sizeof(V *));
	if (n)
		memcpy(ni, a->items, n * sizeof(V *));
	ni[n] = val;
	a->items = ni;
	a->n = n + 1;
	return a;
}
V *v_clone(const V *v)
{
	if (!v)
		return v_null();
	switch (v->k)
	{
	case V_NULL: return v_null();
	case V_BOOL: return v_bool(v->b);
	case V_INT:
	{
		V *r = v_int(v->neg, v->mag);
		r->over = v->over;
		return r;
	}
	case V_DBL: return v_dbls(v->d, v->numtext);
	case V_STR: return v_str(v->s, v->slen);
	case V_ARR:
	{
		V *r = v_arr(v->n);
		for (size_t i = 0; i < v->n; i++)
			r->items[i] = v_clone(v->items[i]);
		return r;
	}
	case V_OBJ:
	{
		V *r = v_obj(v->n);
		for (size_t i = 0; i < v->n; i++)
			v_obj_set(r, i, v->keys[i], v->klens[i], v_clone(v->items[i]));
		return r;
	}
	}
	return v_null();
}

/* ---------- dumps (identical format for V and json-c trees) ---------- */
static void dump_u64(sb_t *out, int neg, uint64_t mag)
{
	sb_printf(out, "i%s%llu", neg && mag ? "-" : "", (unsigned long long)mag);
}
static void dump_dbl(sb_t *out, double d)
{
	uint64_t bits;
	memcpy(&bits, &d, 8);
	if (d != d)
		sb_puts(out, "dNaN");
	else
		sb_printf(out, "d%016llx", (unsigned long long)bits);
}
static void dump_bytes(sb_t *out, char tag, const void *p, size_t n)
{
	sb_printf(out, "%c%zu:", tag, n);
	sb_hex(out, p, n);
}
void v_dump(const V *v, sb_t *out, int flags)
{
	if (!v)
	{
		sb_putc(out, 'n');
		return;
	}
	switch (v->k)
	{
	case V_NULL: sb_putc(out, 'n'); break;
	case V_BOOL: sb_putc(out, v->b ? 't' : 'f'); break;
	case V_INT: dump_u64(out, v->neg, v->mag); break;
	case V_DBL:
		dump_dbl(out, v->d);
		if ((flags & DUMP_SER) && v->numtext)
			sb_printf(out, "\"%s\"", v->numtext);
		break;
	case V_STR: dump_bytes(out, 's', v->s, v->slen); break;
	case V_ARR:
		sb_putc(out, '[');
		for (size_t i = 0; i < v->n; i++)
		{
			if (i)
				sb_putc(out, ',');
			v_dump(v->items[i], out, flags);
		}
		sb_putc(out, ']');
		break;
	case V_OBJ:
		sb_putc(out, '{');
		for (size_t i = 0; i < v->n; i++)
		{
			if (i)
				sb_putc(out, ',');
			dump_bytes(out, 'k', v->keys[i], v->klens[i]);
			sb_putc(out, '=');
			v_dump(v->items[i], out, flags);
		}
		sb_putc(out, '}');
		break;
	}
}

void vf_dump(struct json_object *o, sb_t *out, int flags)
{
	if (!o)
	{
		sb_putc(out, 'n');
		return;
	}
	if (flags & DUMP_ADDR)
		sb_printf(out, "@%ld", vf_block_serial(o));
	switch (json_object_get_type(o))
	{
	case json_type_null: sb_putc(out, 'n'); break;
	case json_type_boolean: sb_putc(out, json_object_get_boolean(o) ? 't' : 'f'); break;
	case json_type_int:
	{
		int saved = errno;
		uint64_t u = json_object_get_uint64(o);
		if (errno == ERANGE && u == 0)
		{
			int64_t s = json_object_get_int64(o);
			dump_u64(out, 1, (uint64_t)0 - (uint64_t)s);
		}
		else
			dump_u64(out, 0, u);
		errno = saved;
		break;
	}
	case json_type_double:
		dump_dbl(out, json_object_get_double(o));
		if (flags & DUMP_SER)
		{
			/* only retained text differs from the %.17g rendering; show it when it does */
			const char *t = json_object_to_json_string_ext(o, JSON_C_TO_STRING_PLAIN);
			char std[64];
			double d = json_object_get_double(o);
			snprintf(std, sizeof std, "%.17g", d);
			if (t && strcmp(t, std) != 0)
			{
				/* "%.17g" + ".0" is the default rendering of integral values */
				size_t sl = strlen(std);
				if (!(strlen(t) == sl + 2 && !strncmp(t, std, sl) && !strcmp(t + sl, ".0")) &&
				    d == d && !isinf(d))
					sb_printf(out, "\"%s\"", t);
			}
		}
		break;
	case json_type_string:
	{
		int n = json_object_get_string_len(o);
		const char *s = json_object_get_string(o);
		dump_bytes(out, 's', s, (size_t)n);
		if (s[n] != 0)
			sb_puts(out, "!NOTERM");
		break;
	}
	case json_type_array:
	{
		size_t n = json_object_array_length(o);
		sb_putc(out, '[');
		for (size_t i = 0; i < n; i++)
		{
			if (i)
				sb_putc(out, ',');
			vf_dump(json_object_array_get_idx(o, i), out, flags);
		}
		sb_putc(out, ']');
		break;
	}
	case json_type_object:
	{
		int first = 1;
		sb_putc(out, '{');
		struct json_object_iterator it = json_object_iter_begin(o);
		struct json_object_iterator end = json_object_iter_end(o);
		while (!json_object_iter_equal(&it, &end))
		{
			const char *k = json_object_iter_peek_name(&it);
			if (!first)
				sb_putc(out, ',');
			first = 0;
			dump_bytes(out, 'k', k, strlen(k));
			sb_putc(out, '=');
			vf_dump(json_object_iter_peek_value(&it), out, flags);
			json_object_iter_next(&it);
		}
		sb_putc(out, '}');
		break;
	}
	}
}

/* ---------- equality of values (C09 semantics) ---------- */
int v_equal(const V *a, const V *b)
{
	vkind ka = a ? a->k : V_NULL, kb = b ? b->k : V_NULL;
	if (ka != kb)
		return 0;
	switch (ka)
	{
	case V_NULL: return 1;
	case V_BOOL: return a->b == b->b;
	case V_INT: return a->neg == b->neg && a->mag == b->mag;
	case V_DBL: return a->d == b->d;
	case V_STR: return a->slen == b->slen && !memcmp(a->s, b->s, a->slen);
	case V_ARR:
		if (a->n != b->n)
			return 0;
		for (size_t i = 0; i < a->n; i++)
			if (!v_equal(a->items[i], b->items[i]))
				return 0;
		return 1;
	case V_OBJ:
		if (a->n != b->n)
			return 0;
		for (size_t i = 0; i < a->n; i++)
		{
			size_t j;
			for (j = 0; j < b->n; j++)
				if (a->klens[i] == b->klens[j] && !memcmp(a->keys[i], b->keys[j], a->klens[i]))
					break;
			if (j == b->n || !v_equal(a->items[i], b->items[j]))
				return 0;
		}
		return 1;
	}
	return 0;
}

/* ---------- V <-> json-c ---------- */
struct json_object *v_build(const V *v)
{
	if (!v)
		return NULL;
	switch (v->k)
	{
	case V_NULL: return NULL;
	case V_BOOL: return json_object_new_boolean(v->b);
	case V_INT:
		if (v->neg)
			return json_object_new_int64((int64_t)((uint64_t)0 - v->mag));
		if (v->mag <= (uint64_t)INT64_MAX)
			return json_object_new_int64((int64_t)v->mag);
		return json_object_new_uint64(v->mag);
	case V_DBL:
		if (v->numtext)
			return json_object_new_double_s(v->d, v->numtext);
		return json_object_new_double(v->d);
	case V_STR: return json_object_new_string_len((const char *)v->s, (int)v->slen);
	case V_ARR:
	{
		struct json_object *a = json_object_new_array();
		for (size_t i = 0; i < v->n; i++)
			json_object_array_add(a, v_build(v->items[i]));
		return a;
	}
	case V_OBJ:
	{
		struct json_object *o = json_object_new_object();
		for (size_t i = 0; i < v->n; i++)
			json_object_object_add(o, (const char *)v->keys[i], v_build(v->items[i]));
		return o;
	}
	}
	return NULL;
}

V *v_from_json(struct json_object *o)
{
	if (!o)
		return v_null();
	switch (json_object_get_type(o))
	{
	case json_type_null: return v_null();
	case json_type_boolean: return v_bool(json_object_get_boolean(o));
	case json_type_int:
	{
		uint64_t u = json_object_get_uint64(o);
		if (errno == ERANGE && u == 0)
			return v_i64(json_object_get_int64(o));
		return v_int(0, u);
	}
	case json_type_double: return v_dbl(json_object_get_double(o));
	case json_type_string:
		return v_str(json_object_get_string(o), (size_t)json_object_get_string_len(o));
	case json_type_array:
	{
		size_t n = json_object_array_length(o);
		V *a = v_arr(n);
		for (size_t i = 0; i < n; i++)
			a->items[i] = v_from_json(json_object_array_get_idx(o, i));
		return a;
	}
	case json_type_object:
	{
		V *r = v_obj(0);
		struct json_object_iterator it = json_object_iter_begin(o);
		struct json_object_iterator end = json_object_iter_end(o);
		while (!json_object_iter_equal(&it, &end))
		{
			const char *k = json_object_iter_peek_name(&it);
			v_obj_put(r, k, strlen(k), v_from_json(json_object_iter_peek_value(&it)));
			json_object_iter_next(&it);
		}
		return r;
	}
	}
	return v_null();
}

/* ---------- canonical printer ---------- */
static void print_str(sb_t *out, const unsigned char *s, size_t n)
{
	sb_putc(out, '"');
	for (size_t i = 0; i < n; i++)
	{
		unsigned char c = s[i];
		if (c == '"' || c == '\\')
		{
			sb_putc(out, '\\');
			sb_putc(out, (char)c);
		}
		else if (c < 0x20)
			sb_printf(out, "\\u%04x", c);
		else
			sb_putc(out, (char)c);
	}
	sb_putc(out, '"');
}
void v_print(const V *v, sb_t *out)
{
	if (!v)
	{
		sb_puts(out, "null");
		return;
	}
	switch (v->k)
	{
	case V_NULL: sb_puts(out, "null"); break;
	case V_BOOL: sb_puts(out, v->b ? "true" : "false"); break;
	case V_INT: sb_printf(out, "%s%llu", v->neg ? "-" : "", (unsigned long long)v->mag); break;
	case V_DBL:
		if (v->numtext)
			sb_puts(out, v->numtext);
		else
		{
			char b[64];
			snprintf(b, sizeof b, "%.17g", v->d);
			sb_puts(out, b);
			if (!strpbrk(b, ".eE"))
				sb_puts(out, ".0");
		}
		break;
	case V_STR: print_str(out, v->s, v->slen); break;
	case V_ARR:
		sb_putc(out, '[');
		for (size_t i = 0; i < v->n; i++)
		{
			if (i)
				sb_putc(out, ',');
			v_print(v->items[i], out);
		}
		sb_putc(out, ']');
		break;
	case V_OBJ:
		sb_putc(out, '{');
		for (size_t i = 0; i < v->n; i++)
		{
			if (i)
				sb_putc(out, ',');
			print_str(out, v->keys[i], v->klens[i]);
			sb_putc(out, ':');
			v_print(v->items[i], out);
		}
		sb_putc(out, '}');
		break;
	}
}

/* ---------- reference RFC 8259 reader ---------- */
struct rr
{
	const unsigned char *t;
	size_t n, i;
	const struct rr_opts *o;
	int status;
	size_t err_pos;
	int max_enc;
	int had_nul_key;
	rr_token *toks;
	int ntok, tokcap;
};
static void rr_ws(struct rr *r)
{
	while (r->i < r->n && (r->t[r->i] == ' ' || r->t[r->i] == '\t' || r->t[r->i] == '\n' || r->t[r->i] == '\r'))
		r->i++;
}
static void rr_tok(struct rr *r, int kind, size_t s, size_t e)
{
	if (r->toks && r->ntok < r->tokcap)
	{
		r->toks[r->ntok].kind = kind;
		r->toks[r->ntok].start = s;
		r->toks[r->ntok].end = e;
	}
	r->ntok++;
}
static int rr_fail(struct rr *r, int st)
{
	if (!r->status)
	{
		r->status = st;
		if (st != RR_DEPTH)
			r->err_pos = r->i;
	}
	return 0;
}
static int hex4(const unsigned char *p, unsigned *out)
{
	unsigned v = 0;
	for (int k = 0; k < 4; k++)
	{
		int c = p[k], d;
		if (c >= '0' && c <= '9')
			d = c - '0';
		else if (c >= 'a' && c <= 'f')
			d = c - 'a' + 10;
		else if (c >= 'A' && c <= 'F')
			d = c - 'A' + 10;
		else
			return 0;
		v = v * 16 + (unsigned)d;
	}
	*out = v;
	return 1;
}
static void put_utf8(sb_t *b, unsigned cp)
{
	if (cp < 0x80)
		sb_putc(b, (char)cp);
	else if (cp < 0x800)
	{
		sb_putc(b, (char)(0xC0 | (cp >> 6)));
		sb_putc(b, (char)(0x80 | (cp & 0x3F)));
	}
	else if (cp < 0x10000)
	{
		sb_putc(b, (char)(0xE0 | (cp >> 12)));
		sb_putc(b, (char)(0x80 | ((cp >> 6) & 0x3F)));
		sb_putc(b, (char)(0x80 | (cp & 0x3F)));
	}
	else
	{
		sb_putc(b, (char)(0xF0 | (cp >> 18)));
		sb_putc(b, (char)(0x80 | ((cp >> 12) & 0x3F)));
		sb_putc(b, (char)(0x80 | ((cp >> 6) & 0x3F)));
		sb_putc(b, (char)(0x80 | (cp & 0x3F)));
	}
}
/* parses a string token starting at the opening quote; decoded bytes into b */
static int rr_string(struct rr *r, sb_t *b)
{
	if (r->i >= r->n || r->t[r->i] != '"')
		return rr_fail(r, RR_SYNTAX);
	r->i++;
	unsigned pending_hi = 0;
	for (;;)
	{
		if (r->i >= r->n)
			return rr_fail(r, RR_SYNTAX);
		unsigned char c = r->t[r->i];
		if (c == '\\' && r->i + 1 < r->n && r->t[r->i + 1] == 'u')
		{
			unsigned u;
			if (r->i + 6 > r->n || !hex4(r->t + r->i + 2, &u))
				return rr_fail(r, RR_SYNTAX);
			r->i += 6;
			if (pending_hi)
			{
				if (u >= 0xDC00 && u <= 0xDFFF)
				{
					put_utf8(b, 0x10000 + ((pending_hi & 0x3FF) << 10) + (u & 0x3FF));
					pending_hi = 0;
					continue;
				}
				put_utf8(b, 0xFFFD);
				pending_hi = 0;
			}
			if (u >= 0xD800 && u <= 0xDBFF)
				pending_hi = u;
			else if (u >= 0xDC00 && u <= 0xDFFF)
				put_utf8(b, 0xFFFD);
			else
				put_utf8(b, u);
			continue;
		}
		if (pending_hi)
		{
			put_utf8(b, 0xFFFD);
			pending_hi = 0;
		}
		if (c == '"')
		{
			r->i++;
			return 1;
		}
		if (c < 0x20)
			return rr_fail(r, RR_SYNTAX);
		if (c == '\\')
		{
			if (r->i + 1 >= r->n)
				return rr_fail(r, RR_SYNTAX);
			unsigned char e = r->t[r->i + 1];
			char d;
			switch (e)
			{
			case '"': d = '"'; break;
			case '\\': d = '\\'; break;
			case '/': d = '/'; break;
			case 'b': d = '\b'; break;
			case 'f': d = '\f'; break;
			case 'n': d = '\n'; break;
			case 'r': d = '\r'; break;
			case 't': d = '\t'; break;
			default: r->i++; return rr_fail(r, RR_SYNTAX);
			}
			sb_putc(b, d);
			r->i += 2;
			continue;
		}
		sb_putc(b, (char)c);
		r->i++;
	}
}
static V *rr_number(struct rr *r)
{
	size_t s = r->i;
	const unsigned char *t = r->t;
	size_t n = r->n;
	int neg = 0, isint = 1;
	if (r->i < n && t[r->i] == '-')
	{
		neg = 1;
		r->i++;
	}
	if (r->i >= n)
		return rr_fail(r, RR_SYNTAX), NULL;
	if (t[r->i] == '0')
		r->i++;
	else if (t[r->i] >= '1' && t[r->i] <= '9')
		while (r->i < n && t[r->i] >= '0' && t[r->i] <= '9')
			r->i++;
	else
		return rr_fail(r, RR_SYNTAX), NULL;
	size_t int_end = r->i;
	if (r->i < n && t[r->i] == '.')
	{
		isint = 0;
		r->i++;
		if (r->i >= n || t[r->i] < '0' || t[r->i] > '9')
			return rr_fail(r, RR_SYNTAX), NULL;
		while (r->i < n && t[r->i] >= '0' && t[r->i] <= '9')
			r->i++;
	}
	if (r->i < n && (t[r->i] == 'e' || t[r->i] == 'E'))
	{
		isint = 0;
		r->i++;
		if (r->i < n && (t[r->i] == '+' || t[r->i] == '-'))
			r->i++;
		if (r->i >= n || t[r->i] < '0' || t[r->i] > '9')
			return rr_fail(r, RR_SYNTAX), NULL;
		while (r->i < n && t[r->i] >= '0' && t[r->i] <= '9')
			r->i++;
	}
	rr_tok(r, 'n', s, r->i);
	if (isint)
	{
		unsigned __int128 acc = 0;
		int over = 0;
		for (size_t k = s + (size_t)neg; k < int_end; k++)
		{
			acc = acc * 10 + (unsigned)(t[k] - '0');
			if (acc > ((unsigned __int128)1 << 70))
			{
				over = 1;
				acc = (unsigned __int128)1 << 70;
			}
		}
		V *v;
		if (neg)
		{
			if (acc > ((unsigned __int128)1 << 63))
			{
				over = 1;
				acc = (unsigned __int128)1 << 63;
			}
			v = v_int(1, (uint64_t)acc);
		}
		else
		{
			if (acc > (unsigned __int128)UINT64_MAX)
			{
				over = 1;
				acc = UINT64_MAX;
			}
			v = v_int(0, (uint64_t)acc);
		}
		v->over = over;
		if (over && r->o->strict_range)
		{
			r->i = s;
			return rr_fail(r, RR_RANGE), NULL;
		}
		return v;
	}
	size_t len = r->i - s;
	char *copy = va_alloc(len + 1);
	memcpy(copy, t + s, len);
	copy[len] = 0;
	double d = strtod(copy, NULL); /* harness runs in the C locale */
	return v_dbls(d, copy);
}
static V *rr_value(struct rr *r, int enclosure)
{
	rr_ws(r);
	if (r->i >= r->n)
		return rr_fail(r, RR_SYNTAX), NULL;
	if (enclosure > r->max_enc)
		r->max_enc = enclosure;
	if (r->o->max_depth && enclosure > r->o->max_depth - 1)
	{
		if (!r->status)
			r->err_pos = r->i;
		return rr_fail(r, RR_DEPTH), NULL;
	}
	unsigned char c = r->t[r->i];
	if (c == '{')
	{
		V *o = v_obj(0);
		rr_tok(r, '{', r->i, r->i + 1);
		r->i++;
		rr_ws(r);
		if (r->i < r->n && r->t[r->i] == '}')
		{
			rr_tok(r, '}', r->i, r->i + 1);
			r->i++;
			return o;
		}
		for (;;)
		{
			rr_ws(r);
			sb_t kb = {0};
			size_t ks = r->i;
			if (!rr_string(r, &kb))
			{
				sb_free(&kb);
				return NULL;
			}
			rr_tok(r, 'k', ks, r->i);
			size_t klen = kb.n;
			if (memchr(sb_str(&kb), 0, kb.n))
			{
				r->had_nul_key = 1;
				if (r->o->cstring_keys)
					klen = strlen(sb_str(&kb));
			}
			rr_ws(r);
			if (r->i >= r->n || r->t[r->i] != ':')
			{
				sb_free(&kb);
				return rr_fail(r, RR_SYNTAX), NULL;
			}
			rr_tok(r, ':', r->i, r->i + 1);
			r->i++;
			V *val = rr_value(r, enclosure + 1);
			if (!val)
			{
				sb_free(&kb);
				return NULL;
			}
			v_obj_put(o, sb_str(&kb), klen, val);
			sb_free(&kb);
			rr_ws(r);
			if (r->i < r->n && r->t[r->i] == ',')
			{
				rr_tok(r, ',', r->i, r->i + 1);
				r->i++;
				continue;
			}
			if (r->i < r->n && r->t[r->i] == '}')
			{
				rr_tok(r, '}', r->i, r->i + 1);
				r->i++;
				return o;
			}
			return rr_fail(r, RR_SYNTAX), NULL;
		}
	}
	if (c == '[')
	{
		V *a = v_arr(0);
		rr_tok(r, '[', r->i, r->i + 1);
		r->i++;
		rr_ws(r);
		if (r->i < r->n && r->t[r->i] == ']')
		{
			rr_tok(r, ']', r->i, r->i + 1);
			r->i++;
			return a;
		}
		for (;;)
		{
			V *val = rr_value(r, enclosure + 1);
			if (!val)
				return NULL;
			v_arr_push(a, val);
			rr_ws(r);
			if (r->i < r->n && r->t[r->i] == ',')
			{
				rr_tok(r, ',', r->i, r->i + 1);
				r->i++;
				continue;
			}
			if (r->i < r->n && r->t[r->i] == ']')
			{
				rr_tok(r, ']', r->i, r->i + 1);
				r->i++;
				return a;
			}
			return rr_fail(r, RR_SYNTAX), NULL;
		}
	}
	if (c == '"')
	{
		sb_t b = {0};
		size_t s = r->i;
		if (!rr_string(r, &b))
		{
			sb_free(&b);
			return NULL;
		}
		rr_tok(r, 's', s, r->i);
		V *v = v_str(sb_str(&b), b.n);
		sb_free(&b);
		return v;
	}
	if (c == '-' || (c >= '0' && c <= '9'))
		return rr_number(r);
	if (r->n - r->i >= 4 && !memcmp(r->t + r->i, "true", 4))
	{
		rr_tok(r, 't', r->i, r->i + 4);
		r->i += 4;
		return v_bool(1);
	}
	if (r->n - r->i >= 5 && !memcmp(r->t + r->i, "false", 5))
	{
		rr_tok(r, 'f', r->i, r->i + 5);
		r->i += 5;
		return v_bool(0);
	}
	if (r->n - r->i >= 4 && !memcmp(r->t + r->i, "null", 4))
	{
		rr_tok(r, 'z', r->i, r->i + 4);
		r->i += 4;
		return v_null();
	}
	return rr_fail(r, RR_SYNTAX), NULL;
}
static void rr_run(struct rr *r, struct rr_result *res)
{
	V *v = rr_value(r, 0);
	if (v && !r->status)
	{
		res->end = r->i;
		if (!r->o->allow_trailing)
		{
			rr_ws(r);
			if (r->i != r->n)
				rr_fail(r, RR_SYNTAX);
			else
				res->end = r->i;
		}
	}
	res->status = r->status;
	res->value = r->status ? NULL : v;
	res->err_pos = r->err_pos;
	res->max_enclosure = r->max_enc;
	res->had_nul_key = r->had_nul_key;
}
void rr_parse(const unsigned char *t, size_t n, const struct rr_opts *o, struct rr_result *res)
{
	static const struct rr_opts dflt;
	struct rr r = {.t = t, .n = n, .o = o ? o : &dflt};
	memset(res, 0, sizeof *res);
	rr_run(&r, res);
}
int rr_tokens(const unsigned char *t, size_t n, rr_token *out, int cap)
{
	static const struct rr_opts dflt;
	struct rr r = {.t = t, .n = n, .o = &dflt, .toks = out, .tokcap = cap};
	struct rr_result res;
	memset(&res, 0, sizeof res);
	rr_run(&r, &res);
	if (res.status)
		return -1;
	return r.ntok;
}

/* ---------- complete tree families ---------- */
static uint64_t ipow(uint64_t b, int e)
{
	uint64_t r = 1;
	while (e-- > 0)
		r *= b;
	return r;
}
static uint64_t nperm(int n, int k)
{
	uint64_t r = 1;
	for (int i = 0; i < k; i++)
		r *= (uint64_t)(n - i);
	return n >= k ? r : 0;
}
void vfam_init(struct vfam *f, int maxdepth)
{
	f->count[0] = (uint64_t)f->nleaves;
	for (int d = 1; d <= maxdepth && d < 5; d++)
	{
		uint64_t n = f->count[d - 1], c = (uint64_t)f->nleaves;
		for (int k = 0; k <= f->width; k++)
		{
			c += ipow(n, k); /* arrays with k children */
			if (f->dup_keys)
				c += ipow(n * (uint64_t)f->nkeys, k);
			else
				c += nperm(f->nkeys, k) * ipow(n, k);
		}
		f->count[d] = c;
	}
}
V *vfam_get(const struct vfam *f, int depth, uint64_t idx)
{
	if (idx < (uint64_t)f->nleaves)
		return v_clone(f->leaves[idx]);
	idx -= (uint64_t)f->nleaves;
	if (depth <= 0)
		return NULL;
	uint64_t n = f->count[depth - 1];
	for (int k = 0; k <= f->width; k++)
	{
		uint64_t ca = ipow(n, k);
		if (idx < ca)
		{
			V *a = v_arr((size_t)k);
			for (int i = 0; i < k; i++)
			{
				a->items[i] = vfam_get(f, depth - 1, idx % n);
				idx /= n;
			}
			return a;
		}
		idx -= ca;
		uint64_t co = f->dup_keys ? ipow(n * (uint64_t)f->nkeys, k) : nperm(f->nkeys, k) * ipow(n, k);
		if (idx < co)
		{
			V *o = v_obj((size_t)k);
			int used[16] = {0};
			for (int i = 0; i < k; i++)
			{
				int ki;
				if (f->dup_keys)
				{
					ki = (int)(idx % (uint64_t)f->nkeys);
					idx /= (uint64_t)f->nkeys;
				}
				else
				{
					/* i-th choice among the names not used yet */
					int avail = f->nkeys - i;
					int pick = (int)(idx % (uint64_t)avail);
					idx /= (uint64_t)avail;
					ki = 0;
					for (;; ki++)
						if (!used[ki] && pick-- == 0)
							break;
					used[ki] = 1;
				}
				V *child = vfam_get(f, depth - 1, idx % n);
				idx /= n;
				v_obj_set(o, (size_t)i, f->keys[ki], strlen(f->keys[ki]), child);
			}
			return o;
		}
		idx -= co;
	}
	return NULL;
}
