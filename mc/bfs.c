/* Explicit-state breadth-first search over operation histories.  Live objects
 * cannot be cloned, so a state is the history reaching it, replayed on a fresh
 * object; states are merged on an exact canonical key. */
#ifndef _GNU_SOURCE
#define _GNU_SOURCE
#endif
#include "mc.h"
#include <stdlib.h>
#include <string.h>

int bfs_cur_hist[BFS_MAXD + 1], bfs_cur_n;
int bfs_shard_mode; /* 0: shard on the first two operations; 1: the caller shards (every transition is ours) */

struct hist
{
	unsigned short op[BFS_MAXD];
	unsigned char n;
};

void bfs_describe(const struct bfs_cb *cb, sb_t *out)
{
	sb_puts(out, "ops=");
	for (int i = 0; i < bfs_cur_n; i++)
		sb_printf(out, "%s%d", i ? "," : "", bfs_cur_hist[i]);
	sb_puts(out, " history=");
	for (int i = 0; i < bfs_cur_n; i++)
	{
		if (i)
			sb_putc(out, ';');
		if (cb->opname)
			cb->opname(bfs_cur_hist[i], out);
	}
}

static void *rebuild(const struct bfs_cb *cb, const struct hist *h)
{
	void *st = cb->fresh();
	bfs_cur_n = 0;
	for (int i = 0; i < h->n; i++)
	{
		bfs_cur_hist[bfs_cur_n++] = h->op[i];
		cb->apply(st, h->op[i], 0);
	}
	return st;
}

#define SEENBITS 22
void bfs_run(const struct bfs_cb *cb, int maxdepth, long maxstates, struct bfs_stats *stats)
{
	size_t cap = 1 << 16, nf = 0, nn = 0;
	struct hist *fr = malloc(cap * sizeof *fr), *nx = malloc(cap * sizeof *nx);
	size_t nxcap = cap;
	uint64_t *seen = calloc((size_t)1 << SEENBITS, sizeof *seen);
	long nseen = 0;
	memset(stats, 0, sizeof *stats);
	if (maxdepth > BFS_MAXD)
		maxdepth = BFS_MAXD;
	{
		struct hist h0;
		memset(&h0, 0, sizeof h0);
		fr[nf++] = h0;
		void *st = cb->fresh();
		uint64_t k = cb->key(st) | 1;
		seen[k & (((uint64_t)1 << SEENBITS) - 1)] = k;
		nseen = 1;
		bfs_cur_n = 0;
		cb->destroy(st, 1);
	}
	int truncated = 0;
	for (int d = 0; d < maxdepth && nf; d++)
	{
		nn = 0;
		for (size_t f = 0; f < nf; f++)
		{
			if (mc_deadline())
			{
				truncated = 1;
				break;
			}
			int ops[1024];
			void *st = rebuild(cb, &fr[f]);
			int nops = cb->menu(st, ops, 1024);
			cb->destroy(st, 0);
			for (int m = 0; m < nops; m++)
			{
				/* every transition has exactly one owning shard: histories of length >= 2 are
				 * owned by their first two operations (so a shard explores whole subtrees);
				 * the shallow transitions are executed by everybody (to find the successor
				 * states) but judged and counted only by their owner */
				int hl = fr[f].n;
				uint64_t skey = hl >= 2 ? (uint64_t)fr[f].op[0] * 1009u + fr[f].op[1]
				                : hl == 1 ? (uint64_t)fr[f].op[0] * 1009u + (uint64_t)ops[m]
				                          : (uint64_t)ops[m];
				int owner = bfs_shard_mode ? 1 : mc_mine(skey);
				if (hl >= 2 && !owner)
					continue;
				if (owner)
				{
					if (!mc_case_begin_all())
						continue;
				}
				else
					mc_muted = 1;
				st = rebuild(cb, &fr[f]);
				bfs_cur_hist[bfs_cur_n++] = ops[m];
				cb->apply(st, ops[m], 1);
				if (!mc_muted)
					stats->transitions++;
				uint64_t k = cb->key(st) | 1;
				cb->destroy(st, 1);
				if (!mc_muted)
				{
					mc_outcome(k);
					mc_sample_current();
				}
				int was_muted = mc_muted;
				mc_muted = 0;
				uint64_t hs = k & (((uint64_t)1 << SEENBITS) - 1);
				int found = 0;
				while (seen[hs])
				{
					if (seen[hs] == k)
					{
						found = 1;
						break;
					}
					hs = (hs + 1) & (((uint64_t)1 << SEENBITS) - 1);
				}
				if (found)
					continue;
				if (nseen >= ((long)3 << (SEENBITS - 2)) || nseen >= maxstates)
				{
					truncated = 1;
					continue;
				}
				seen[hs] = k;
				nseen++;
				if (!was_muted)
					mc_nontrivial(k);
				if (d + 1 < maxdepth)
				{
					if (nn == nxcap)
					{
						nxcap *= 2;
						nx = realloc(nx, nxcap * sizeof *nx);
					}
					nx[nn] = fr[f];
					nx[nn].op[nx[nn].n++] = (unsigned short)ops[m];
					nn++;
				}
			}
		}
		if (truncated)
			break;
		stats->max_depth_done = d + 1;
		struct hist *t = fr;
		fr = nx;
		nx = t;
		size_t tc = cap;
		cap = nxcap;
		nxcap = tc;
		nf = nn;
	}
	stats->states = nseen;
	if (truncated)
		mc_not_exhaustive("BFS state cap or deadline reached before the depth bound");
	free(fr);
	free(nx);
	free(seen);
}

void bfs_replay(const struct bfs_cb *cb, const char *desc)
{
	char buf[512];
	if (!mc_desc_str(desc, "ops", buf, sizeof buf))
		return;
	void *st = cb->fresh();
	bfs_cur_n = 0;
	sb_t o = {0};
	for (char *p = buf; *p;)
	{
		int op = (int)strtol(p, &p, 10);
		if (*p == ',')
			p++;
		bfs_cur_hist[bfs_cur_n++] = op;
		sb_reset(&o);
		if (cb->opname)
			cb->opname(op, &o);
		printf("step %d: %s\n", bfs_cur_n, sb_str(&o));
		cb->apply(st, op, 1);
	}
	cb->destroy(st, 1);
	sb_free(&o);
}
