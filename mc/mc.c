/* mc runtime: sharding, crash isolation, counters, violations.  See mc.h. */
#ifndef _GNU_SOURCE
#define _GNU_SOURCE
#endif
#include "mc.h"
#include <errno.h>
#include <fcntl.h>
#include <signal.h>
#include <stdlib.h>
#include <string.h>
#include <sys/mman.h>
#include <sys/time.h>
#include <sys/wait.h>
#include <time.h>
#include <unistd.h>

/* ---------- strbuf ---------- */
void sb_init_fixed(sb_t *s, char *buf, size_t cap)
{
	s->p = buf;
	s->cap = cap;
	s->n = 0;
	s->fixed = 1;
	if (cap)
		buf[0] = 0;
}
void sb_reset(sb_t *s)
{
	s->n = 0;
	if (s->p)
		s->p[0] = 0;
}
static int sb_room(sb_t *s, size_t extra)
{
	if (s->n + extra + 1 <= s->cap)
		return 1;
	if (s->fixed)
		return 0;
	size_t nc = s->cap ? s->cap * 2 : 256;
	while (nc < s->n + extra + 1)
		nc *= 2;
	char *np = realloc(s->p, nc);
	if (!np)
		abort();
	s->p = np;
	s->cap = nc;
	return 1;
}
void sb_putc(sb_t *s, char c)
{
	if (!sb_room(s, 1))
		return;
	s->p[s->n++] = c;
	s->p[s->n] = 0;
}
void sb_put(sb_t *s, const void *p, size_t n)
{
	if (!sb_room(s, n))
	{
		if (s->cap <= s->n + 1)
			return;
		n = s->cap - s->n - 1;
	}
	memcpy(s->p + s->n, p, n);
	s->n += n;
	s->p[s->n] = 0;
}
void sb_puts(sb_t *s, const char *z)
{
	sb_put(s, z, strlen(z));
}
void sb_printf(sb_t *s, const char *fmt, ...)
{
	char tmp[512];
	va_list ap;
	va_start(ap, fmt);
	int n = vsnprintf(tmp, sizeof tmp, fmt, ap);
	va_end(ap);
	if (n < 0)
		return;
	if ((size_t)n < sizeof tmp)
	{
		sb_put(s, tmp, (size_t)n);
		return;
	}
	if (s->fixed)
	{
		sb_put(s, tmp, sizeof tmp - 1);
		return;
	}
	char *big = malloc((size_t)n + 1);
	va_start(ap, fmt);
	vsnprintf(big, (size_t)n + 1, fmt, ap);
	va_end(ap);
	sb_put(s, big, (size_t)n);
	free(big);
}
void sb_hex(sb_t *s, const void *p, size_t n)
{
	static const char hx[] = "0123456789abcdef";
	const unsigned char *b = p;
	for (size_t i = 0; i < n; i++)
	{
		sb_putc(s, hx[b[i] >> 4]);
		sb_putc(s, hx[b[i] & 15]);
	}
}
void sb_free(sb_t *s)
{
	if (!s->fixed)
		free(s->p);
	s->p = NULL;
	s->n = s->cap = 0;
}
const char *sb_str(sb_t *s)
{
	return s->p ? s->p : "";
}

/* ---------- hashing ---------- */
uint64_t mc_hash(const void *p, size_t n, uint64_t seed)
{
	const unsigned char *b = p;
	uint64_t h = 0xcbf29ce484222325ULL ^ (seed * 0x9e3779b97f4a7c15ULL);
	for (size_t i = 0; i < n; i++)
	{
		h ^= b[i];
		h *= 0x100000001b3ULL;
	}
	h ^= h >> 29;
	h *= 0xbf58476d1ce4e5b9ULL;
	h ^= h >> 32;
	return h;
}
uint64_t mc_hash_str(const char *z)
{
	return mc_hash(z, strlen(z), 0);
}

/* ---------- shared state ---------- */
#define NSTAT 96
#define NSIGS 96
#define OUTBITS 21
#define NSAMPLE 6
#define SAMPLE_LEN 600
struct shared
{
	uint64_t case_no;      /* number of the case being run (1-based) */
	uint64_t cases_run;
	char stat_name[NSTAT][48];
	long stat_val[NSTAT];
	int nstat;
	char sig_name[NSIGS][128];
	long sig_count[NSIGS];
	int nsig;
	long violations;
	uint64_t outcomes[1 << OUTBITS];
	long n_outcomes;
	int outcomes_full;
	uint64_t nontriv[1 << OUTBITS];
	long n_nontriv;
	int nontriv_full;
	char samples[NSAMPLE][SAMPLE_LEN];
	long n_samples;
	int not_exhaustive;
	char why_not[200];
	int crash_reported; /* the signal handler already wrote the VIOL line */
	uint64_t crashed[256]; /* case numbers that killed a worker */
	int ncrashed;
	uint64_t watchdog_seen;
	int watchdog_ticks;
};
static struct shared *S;

const char *mc_phase = "";
int mc_tier, mc_shard, mc_nshards = 1, mc_replaying, mc_verbose;
int mc_errno_pre; /* value planted in errno before each library call under test (0, or a stale ERANGE) */
static struct mc_harness *H;
static uint64_t skip_until; /* cases numbered <= skip_until are not run */
static int out_fd = 1;
static double deadline_at;
static char **g_argv;
static int g_argc;
static int case_timeout_s = 20;

static double now_s(void)
{
	struct timespec ts;
	clock_gettime(CLOCK_MONOTONIC, &ts);
	return ts.tv_sec + ts.tv_nsec * 1e-9;
}

static void out_line(const char *line, size_t n)
{
	while (n)
	{
		ssize_t w = write(out_fd, line, n);
		if (w < 0)
		{
			if (errno == EINTR)
				continue;
			return;
		}
		line += w;
		n -= (size_t)w;
	}
}

const char *mc_opt(const char *key, const char *dflt)
{
	size_t kl = strlen(key);
	for (int i = 1; i < g_argc; i++)
		if (!strncmp(g_argv[i], key, kl) && g_argv[i][kl] == '=')
			return g_argv[i] + kl + 1;
	return dflt;
}
long mc_opt_int(const char *key, long dflt)
{
	const char *v = mc_opt(key, NULL);
	return v ? strtol(v, NULL, 0) : dflt;
}

int mc_stat_slot(const char *name)
{
	for (int i = 0; i < S->nstat; i++)
		if (!strcmp(S->stat_name[i], name))
			return i;
	if (S->nstat >= NSTAT)
		return NSTAT - 1;
	snprintf(S->stat_name[S->nstat], sizeof S->stat_name[0], "%s", name);
	return S->nstat++;
}
void mc_stat_add(int slot, long n)
{
	if (mc_muted)
		return;
	S->stat_val[slot] += n;
}
void mc_stat_max(int slot, long v)
{
	if (mc_muted)
		return;
	if (v > S->stat_val[slot])
		S->stat_val[slot] = v;
}

static void set_insert(uint64_t *tab, long *count, int *full, uint64_t h)
{
	if (h == 0)
		h = 1;
	if (*count >= (1 << OUTBITS) * 3 / 4)
	{
		*full = 1;
		return;
	}
	uint64_t i = h & ((1 << OUTBITS) - 1);
	while (tab[i])
	{
		if (tab[i] == h)
			return;
		i = (i + 1) & ((1 << OUTBITS) - 1);
	}
	tab[i] = h;
	(*count)++;
}
void mc_outcome(uint64_t h)
{
	set_insert(S->outcomes, &S->n_outcomes, &S->outcomes_full, h);
}
void mc_nontrivial(uint64_t h)
{
	set_insert(S->nontriv, &S->n_nontriv, &S->nontriv_full, h);
}

void mc_sample(const char *s)
{
	if (mc_muted)
		return;
	long k = S->n_samples++;
	int slot;
	if (k < NSAMPLE - 1)
		slot = (int)k;
	else
		slot = NSAMPLE - 1;
	/* keep the first NSAMPLE-1, then one at exponentially spaced indices */
	if (k >= NSAMPLE - 1 && (k & (k - 1)) != 0)
		return;
	snprintf(S->samples[slot], SAMPLE_LEN, "%s", s);
}

static char desc_buf[1 << 16];
static const char *describe_current(void)
{
	sb_t d;
	sb_init_fixed(&d, desc_buf, sizeof desc_buf);
	if (H && H->describe)
		H->describe(&d);
	for (char *p = desc_buf; *p; p++)
		if (*p == '\t' || *p == '\n')
			*p = ' ';
	return desc_buf;
}
void mc_sample_current(void)
{
	if (mc_muted)
		return;
	long k = S->n_samples;
	if (k >= NSAMPLE - 1 && (k & (k - 1)) != 0)
	{
		S->n_samples++;
		return;
	}
	mc_sample(describe_current());
}

static int sig_slot(const char *sig)
{
	for (int i = 0; i < S->nsig; i++)
		if (!strcmp(S->sig_name[i], sig))
			return i;
	if (S->nsig >= NSIGS)
		return NSIGS - 1;
	snprintf(S->sig_name[S->nsig], sizeof S->sig_name[0], "%s", sig);
	return S->nsig++;
}

static char viol_buf[(1 << 16) + 4096];
static void emit_violation(const char *sig, const char *msg)
{
	if (mc_muted)
		return;
	int slot = sig_slot(sig);
	long c = ++S->sig_count[slot];
	S->violations++;
	if (c > 3 && !mc_replaying)
		return;
	const char *d = describe_current();
	int n = snprintf(viol_buf, sizeof viol_buf, "VIOL\t%s\t%s case=%llu\t%s\n", sig, d,
	                 (unsigned long long)S->case_no, msg);
	if (n > (int)sizeof viol_buf - 1)
		n = sizeof viol_buf - 1;
	out_line(viol_buf, (size_t)n);
}
void mc_violation(const char *sig, const char *fmt, ...)
{
	char msg[2048];
	va_list ap;
	va_start(ap, fmt);
	vsnprintf(msg, sizeof msg, fmt, ap);
	va_end(ap);
	for (char *p = msg; *p; p++)
		if (*p == '\t' || *p == '\n')
			*p = ' ';
	emit_violation(sig, msg);
}
long mc_violations(void)
{
	return S->violations;
}
void mc_note(const char *fmt, ...)
{
	char msg[2048];
	va_list ap;
	va_start(ap, fmt);
	int n = vsnprintf(msg, sizeof msg - 8, fmt, ap);
	va_end(ap);
	if (n < 0)
		return;
	if (n > (int)sizeof msg - 9)
		n = sizeof msg - 9;
	for (char *p = msg; *p; p++)
		if (*p == '\t' || *p == '\n')
			*p = ' ';
	char line[2100];
	int m = snprintf(line, sizeof line, "INFO\t%s\n", msg);
	out_line(line, (size_t)m);
}

int mc_deadline(void)
{
	static unsigned tick;
	static int hit;
	if (hit)
		return 1;
	if ((++tick & 0xff) != 0)
		return 0;
	if (deadline_at > 0 && now_s() > deadline_at)
	{
		hit = 1;
		mc_not_exhaustive("global deadline reached");
	}
	return hit;
}
void mc_not_exhaustive(const char *why)
{
	if (!S->not_exhaustive)
		snprintf(S->why_not, sizeof S->why_not, "%s", why);
	S->not_exhaustive = 1;
}

void mc_restart_worker(void)
{
	/* a violation has been reported and process-wide state (allocation accounting, library
	 * statics) is no longer trustworthy: end this worker, the parent resumes after this case */
	if (mc_replaying)
		return;
	S->crash_reported = 1;
	_exit(99);
}

int mc_mine(uint64_t k)
{
	return (int)(k % (uint64_t)mc_nshards) == mc_shard;
}

int mc_case_begin(void)
{
	uint64_t n = ++S->case_no;
	if (n <= skip_until)
		return 0;
	if (!mc_mine(n))
		return 0;
	S->cases_run++;
	return 1;
}

/* a case that every shard counts (the caller has already decided it is this shard's) */
int mc_muted; /* re-execution of already-judged cases after a worker restart: no reports, no counts */
int mc_case_begin_all(void)
{
	uint64_t n = ++S->case_no;
	mc_muted = 0;
	if (n <= skip_until)
	{
		for (int i = 0; i < S->ncrashed; i++)
			if (S->crashed[i] == n)
				return 0;
		mc_muted = 1; /* state-building re-run (BFS): successors are needed, verdicts are not */
		return 2;
	}
	S->cases_run++;
	return 1;
}

/* ---------- descriptors ---------- */
static const char *desc_find(const char *desc, const char *key)
{
	size_t kl = strlen(key);
	const char *p = desc;
	while (*p)
	{
		while (*p == ' ')
			p++;
		if (!strncmp(p, key, kl) && p[kl] == '=')
			return p + kl + 1;
		while (*p && *p != ' ')
			p++;
	}
	return NULL;
}
int mc_desc_int(const char *desc, const char *key, long *out)
{
	const char *v = desc_find(desc, key);
	if (!v)
		return 0;
	*out = strtol(v, NULL, 0);
	return 1;
}
int mc_desc_u64(const char *desc, const char *key, uint64_t *out)
{
	const char *v = desc_find(desc, key);
	if (!v)
		return 0;
	*out = strtoull(v, NULL, 0);
	return 1;
}
static int hexv(int c)
{
	if (c >= '0' && c <= '9')
		return c - '0';
	if (c >= 'a' && c <= 'f')
		return c - 'a' + 10;
	if (c >= 'A' && c <= 'F')
		return c - 'A' + 10;
	return -1;
}
int mc_desc_hex(const char *desc, const char *key, unsigned char *buf, size_t cap, size_t *len)
{
	const char *v = desc_find(desc, key);
	if (!v)
		return 0;
	size_t n = 0;
	while (hexv(v[0]) >= 0 && hexv(v[1]) >= 0 && n < cap)
	{
		buf[n++] = (unsigned char)(hexv(v[0]) * 16 + hexv(v[1]));
		v += 2;
	}
	*len = n;
	return 1;
}
int mc_desc_str(const char *desc, const char *key, char *buf, size_t cap)
{
	const char *v = desc_find(desc, key);
	if (!v)
		return 0;
	size_t n = 0;
	while (*v && *v != ' ' && n + 1 < cap)
		buf[n++] = *v++;
	buf[n] = 0;
	return 1;
}

/* ---------- guard buffer ---------- */
char *mc_guard_buf(size_t len)
{
	static char *base;
	static size_t span;
	if (!base)
	{
		long pg = sysconf(_SC_PAGESIZE);
		span = MC_GUARD_MAX;
		base = mmap(NULL, span + (size_t)pg, PROT_READ | PROT_WRITE, MAP_PRIVATE | MAP_ANONYMOUS,
		            -1, 0);
		if (base == MAP_FAILED)
			abort();
		mprotect(base + span, (size_t)pg, PROT_NONE);
	}
	if (len > span)
		abort();
	return base + span - len;
}

/* ---------- crash isolation ---------- */
static const char *signame(int sig)
{
	switch (sig)
	{
	case SIGSEGV: return "SIGSEGV";
	case SIGBUS: return "SIGBUS";
	case SIGABRT: return "SIGABRT";
	case SIGFPE: return "SIGFPE";
	case SIGILL: return "SIGILL";
	case SIGALRM: return "TIMEOUT";
	default: return "SIGNAL";
	}
}
static void crash_handler(int sig)
{
	char sigbuf[64], msg[128];
	if (mc_phase && *mc_phase)
		snprintf(sigbuf, sizeof sigbuf, "crash:%s@%s", signame(sig), mc_phase);
	else
		snprintf(sigbuf, sizeof sigbuf, "crash:%s", signame(sig));
	snprintf(msg, sizeof msg, "worker died with %s while running this case (see shard stderr for a sanitizer report)",
	         signame(sig));
	emit_violation(sigbuf, msg);
	S->crash_reported = 1;
	_exit(99);
}
static void watchdog(int sig)
{
	(void)sig;
	if (S->watchdog_seen == S->case_no && S->case_no != 0)
	{
		if (++S->watchdog_ticks >= case_timeout_s)
			crash_handler(SIGALRM);
	}
	else
	{
		S->watchdog_seen = S->case_no;
		S->watchdog_ticks = 0;
	}
}
static void install_handlers(void)
{
	static char altstack[1 << 16];
	stack_t ss = {.ss_sp = altstack, .ss_size = sizeof altstack, .ss_flags = 0};
	sigaltstack(&ss, NULL);
	struct sigaction sa;
	memset(&sa, 0, sizeof sa);
	sa.sa_handler = crash_handler;
	sa.sa_flags = SA_ONSTACK | SA_NODEFER;
	int sigs[] = {SIGSEGV, SIGBUS, SIGABRT, SIGFPE, SIGILL};
	for (unsigned i = 0; i < sizeof sigs / sizeof sigs[0]; i++)
		sigaction(sigs[i], &sa, NULL);
	sa.sa_handler = watchdog;
	sa.sa_flags = SA_ONSTACK | SA_RESTART;
	/* CPU time of this process, not wall-clock time: a case that loops forever burns CPU and is caught;
	 * a machine that is merely busy with other work cannot make a healthy case look like a hang */
	sigaction(SIGPROF, &sa, NULL);
	struct itimerval it = {{1, 0}, {1, 0}};
	setitimer(ITIMER_PROF, &it, NULL);
}

static void emit_summary(double wall)
{
	char line[SAMPLE_LEN + 64];
	int n;
	n = snprintf(line, sizeof line, "STAT\tcases\t%llu\n", (unsigned long long)S->cases_run);
	out_line(line, (size_t)n);
	for (int i = 0; i < S->nstat; i++)
	{
		if (!strncmp(S->stat_name[i], "max:", 4))
			n = snprintf(line, sizeof line, "MAX\t%s\t%ld\n", S->stat_name[i] + 4, S->stat_val[i]);
		else
			n = snprintf(line, sizeof line, "STAT\t%s\t%ld\n", S->stat_name[i], S->stat_val[i]);
		out_line(line, (size_t)n);
	}
	n = snprintf(line, sizeof line, "STAT\toutcomes\t%ld\nSTAT\tnontrivial\t%ld\n", S->n_outcomes,
	             S->n_nontriv);
	out_line(line, (size_t)n);
	if (S->outcomes_full || S->nontriv_full)
	{
		n = snprintf(line, sizeof line, "INFO\tdistinct-set table filled up: outcome/nontrivial counts are lower bounds\n");
		out_line(line, (size_t)n);
	}
	for (int i = 0; i < S->nsig; i++)
	{
		n = snprintf(line, sizeof line, "VIOLCOUNT\t%s\t%ld\n", S->sig_name[i], S->sig_count[i]);
		out_line(line, (size_t)n);
	}
	long ns = S->n_samples < NSAMPLE ? S->n_samples : NSAMPLE;
	for (long i = 0; i < ns; i++)
	{
		n = snprintf(line, sizeof line, "SAMPLE\t%s\n", S->samples[i]);
		out_line(line, (size_t)n);
	}
	n = snprintf(line, sizeof line, "DONE\t%d\t%s\t%.3f\n", S->not_exhaustive ? 0 : 1,
	             S->not_exhaustive ? S->why_not : "-", wall);
	out_line(line, (size_t)n);
}

int mc_main(int argc, char **argv, struct mc_harness *h)
{
	g_argc = argc;
	g_argv = argv;
	H = h;
	S = mmap(NULL, sizeof *S, PROT_READ | PROT_WRITE, MAP_SHARED | MAP_ANONYMOUS, -1, 0);
	if (S == MAP_FAILED)
	{
		perror("mmap");
		return 2;
	}
	const char *tier = mc_opt("tier", "quick");
	mc_tier = !strcmp(tier, "thorough");
	if (!strcmp(mc_opt("size", ""), "quick"))
		mc_tier = 0; /* a secondary run that keeps the quick-tier sizes in both tiers */
	mc_errno_pre = (int)mc_opt_int("errno_pre", 0);
	mc_verbose = (int)mc_opt_int("verbose", 0);
	const char *sh = mc_opt("shard", "0/1");
	sscanf(sh, "%d/%d", &mc_shard, &mc_nshards);
	if (mc_nshards < 1)
		mc_nshards = 1;
	const char *out = mc_opt("out", NULL);
	if (out)
	{
		out_fd = open(out, O_WRONLY | O_CREAT | O_TRUNC, 0644);
		if (out_fd < 0)
		{
			perror(out);
			return 2;
		}
	}
	long dl = mc_opt_int("deadline", 0);
	double t0 = now_s();
	if (dl > 0)
		deadline_at = t0 + dl;
	case_timeout_s = (int)mc_opt_int("case_timeout", 20);

	const char *rp = mc_opt("replay", NULL);
	if (rp)
	{
		mc_replaying = 1;
		if (!h->replay)
		{
			fprintf(stderr, "harness %s has no replay\n", h->name);
			return 2;
		}
		int v = h->replay(rp);
		printf("REPLAY %s violations=%d\n", h->name, v);
		return v ? 1 : 0;
	}

	int nofork = (int)mc_opt_int("nofork", 0);
	if (nofork)
	{
		h->enumerate();
		emit_summary(now_s() - t0);
		return 0;
	}
	int restarts = 0;
	for (;;)
	{
		fflush(NULL);
		pid_t pid = fork();
		if (pid < 0)
		{
			perror("fork");
			return 2;
		}
		if (pid == 0)
		{
			install_handlers();
			uint64_t resume = skip_until;
			S->case_no = 0;
			S->cases_run = S->cases_run; /* keeps accumulating across restarts */
			(void)resume;
			h->enumerate();
			_exit(0);
		}
		int st = 0;
		while (waitpid(pid, &st, 0) < 0 && errno == EINTR)
		{
		}
		if (WIFEXITED(st) && WEXITSTATUS(st) == 0)
			break;
		/* the worker died while running case S->case_no */
		if (!S->crash_reported)
		{
			char msg[160];
			snprintf(msg, sizeof msg, "worker died (status 0x%x) at case %llu without a handler report", st,
			         (unsigned long long)S->case_no);
			/* describe() state is in the dead child: report by number */
			int slot = sig_slot("crash:unknown");
			S->sig_count[slot]++;
			S->violations++;
			char line[400];
			int n = snprintf(line, sizeof line, "VIOL\tcrash:unknown\tcase=%llu\t%s\n",
			                 (unsigned long long)S->case_no, msg);
			out_line(line, (size_t)n);
		}
		S->crash_reported = 0;
		skip_until = S->case_no;
		if (S->ncrashed < 256)
			S->crashed[S->ncrashed++] = S->case_no;
		if (++restarts > 40)
		{
			mc_not_exhaustive("more than 40 worker crashes; exploration abandoned");
			break;
		}
	}
	emit_summary(now_s() - t0);
	return 0;
}
