/*
 * Force-included (after the system headers) into every json-c translation unit
 * the harness compiles.  Redirects the environment calls of the library to the
 * harness so that every allocation, descriptor transfer and locale-object
 * creation is a choice point the explorer owns.  No change to /repo is needed.
 */
#ifndef VF_SEAMS_H
#define VF_SEAMS_H
#include <stddef.h>
#include <stdarg.h>
#include <stdlib.h>
#include <string.h>
#include <stdio.h>
#include <unistd.h>
#include <fcntl.h>
#include <sys/types.h>
#include <sys/stat.h>
#include <locale.h>

void *vf_malloc(size_t n);
void *vf_calloc(size_t a, size_t b);
void *vf_realloc(void *p, size_t n);
void vf_free(void *p);
char *vf_strdup(const char *s);
int vf_vasprintf(char **out, const char *fmt, va_list ap);
ssize_t vf_read(int fd, void *buf, size_t n);
ssize_t vf_write(int fd, const void *buf, size_t n);
int vf_open(const char *path, int flags, ...);
int vf_close(int fd);
locale_t vf_duplocale(locale_t l);
locale_t vf_newlocale(int mask, const char *name, locale_t base);
void vf_freelocale(locale_t l);

#define malloc(n) vf_malloc(n)
#define calloc(a, b) vf_calloc(a, b)
#define realloc(p, n) vf_realloc(p, n)
#define free(p) vf_free(p)
#undef strdup
#define strdup(s) vf_strdup(s)
#define vasprintf(o, f, a) vf_vasprintf(o, f, a)
#define read(fd, b, n) vf_read(fd, b, n)
#define write(fd, b, n) vf_write(fd, b, n)
#define open(...) vf_open(__VA_ARGS__)
#define close(fd) vf_close(fd)
#define duplocale(l) vf_duplocale(l)
#define newlocale(m, n, b) vf_newlocale(m, n, b)
#define freelocale(l) vf_freelocale(l)
#endif
