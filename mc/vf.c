/* Environment seams: allocator with accounting + fault plan, descriptor table,
 * locale objects, seed source.  Compiled WITHOUT vf_seams.h (uses the real libc). */
#ifndef _GNU_SOURCE
#define _GNU_SOURCE
#endif
#include "mc.h"
#include <errno.h>
#include <fcntl.h>
#include <locale.h>
#include <stdlib.h>
#include <string.h>
#include <sys/types.h>
#include <unistd.h>
#include <pthread.h>

/* free-running threads (C18 cross-check under the real TSan runtime): the bookkeeping is locked */
int vf_threaded;
static pthread_mutex_t vf_mu = PTHREAD_RECURSIVE_MUTEX_INITIALIZER_NP;
#define VF_LOCK()                        \
	do                                   \
	{                                    \
		if (vf_threaded)                 \
			pthread_mutex_lock(&vf_mu);  \
	} while (0)
#define VF_UNLOCK()                       \
	do                                    \
	{                                     \
		if (vf_threaded)                  \
			pthread_mutex_unlock(&vf_mu); \
	} while (0)

/* ---------- live block table ---------- */
struct blk
{
	void *p; /* NULL = empty, (void*)1 = tombstone */
	size_t size;
	long serial;
};
static struct blk *tab;
static size_t tab_cap, tab_used, tab_live;
static long live_bytes, peak_live, serial_no, alloc_calls, fail_k1, fail_k2, locale_live;
static int fail_fired;
static char fail_kinds[8];
static char cur_kind = '?';
int vf_quarantine; /* 1: freed blocks are poisoned but never returned to the allocator (C18: no address reuse) */
void (*vf_free_hook)(void *p, size_t size);
void (*vf_alloc_hook)(void *p, size_t size);

#define TOMB ((void *)1)
static size_t slot_of(const void *p)
{
	uint64_t h = (uint64_t)(uintptr_t)p;
	h ^= h >> 33;
	h *= 0xff51afd7ed558ccdULL;
	h ^= h >> 33;
	return (size_t)h;
}
static void tab_grow(void)
{
	size_t ncap = tab_cap ? tab_cap * 2 : 1 << 12;
	struct blk *nt = calloc(ncap, sizeof *nt);
	if (!nt)
		abort();
	for (size_t i = 0; i < tab_cap; i++)
		if (tab[i].p && tab[i].p != TOMB)
		{
			size_t j = slot_of(tab[i].p) & (ncap - 1);
			while (nt[j].p)
				j = (j + 1) & (ncap - 1);
			nt[j] = tab[i];
		}
	free(tab);
	tab = nt;
	tab_cap = ncap;
	tab_used = tab_live;
}
static struct blk *tab_find(const void *p)
{
	if (!tab_cap || !p)
		return NULL;
	size_t j = slot_of(p) & (tab_cap - 1);
	while (tab[j].p)
	{
		if (tab[j].p == p)
			return &tab[j];
		j = (j + 1) & (tab_cap - 1);
	}
	return NULL;
}
static void tab_add(void *p, size_t size)
{
	if ((tab_used + 1) * 2 > tab_cap)
		tab_grow();
	size_t j = slot_of(p) & (tab_cap - 1);
	while (tab[j].p && tab[j].p != TOMB)
		j = (j + 1) & (tab_cap - 1);
	if (!tab[j].p)
		tab_used++;
	tab[j].p = p;
	tab[j].size = size;
	tab[j].serial = ++serial_no;
	tab_live++;
	live_bytes += (long)size;
	if ((long)tab_live > peak_live)
		peak_live = (long)tab_live;
}

void vf_counters_reset(void)
{
	alloc_calls = 0;
	fail_k1 = fail_k2 = 0;
	fail_fired = 0;
	fail_kinds[0] = 0;
}
long vf_live(void)
{
	return (long)tab_live;
}
long vf_live_bytes(void)
{
	return live_bytes;
}
long vf_alloc_calls(void)
{
	return alloc_calls;
}
void vf_fail_plan(long k1, long k2)
{
	fail_k1 = k1;
	fail_k2 = k2;
	fail_fired = 0;
	fail_kinds[0] = 0;
}
int vf_fail_fired(void)
{
	return fail_fired;
}
long vf_peak_live(void)
{
	return peak_live;
}
void vf_peak_reset(void)
{
	peak_live = (long)tab_live;
}
int vf_is_live(const void *p)
{
	return tab_find(p) != NULL;
}
size_t vf_block_size(const void *p)
{
	struct blk *b = tab_find(p);
	return b ? b->size : 0;
}
long vf_block_serial(const void *p)
{
	struct blk *b = tab_find(p);
	return b ? b->serial : -1;
}
long vf_locale_live(void)
{
	return locale_live;
}
void vf_live_dump(sb_t *out, int max)
{
	int n = 0;
	for (size_t i = 0; i < tab_cap && n < max; i++)
		if (tab[i].p && tab[i].p != TOMB)
		{
			sb_printf(out, "[#%ld %zuB]", tab[i].serial, tab[i].size);
			n++;
		}
}

const char *vf_fail_kinds(void)
{
	return fail_kinds;
}
static int should_fail(size_t n)
{
	alloc_calls++;
	if (alloc_calls == fail_k1 || alloc_calls == fail_k2)
	{
		if (fail_fired < 6)
		{
			fail_kinds[fail_fired] = cur_kind;
			fail_kinds[fail_fired + 1] = 0;
		}
		fail_fired++;
		errno = ENOMEM;
		return 1;
	}
	if (n >= ((size_t)256 << 20))
	{
		errno = ENOMEM;
		return 1;
	}
	return 0;
}

void *vf_malloc(size_t n)
{
	VF_LOCK();
	cur_kind = 'm';
	if (should_fail(n))
	{
		VF_UNLOCK();
		return NULL;
	}
	void *p = malloc(n ? n : 1);
	if (!p)
		abort();
	memset(p, 0xA5, n);
	tab_add(p, n);
	if (vf_alloc_hook)
		vf_alloc_hook(p, n);
	VF_UNLOCK();
	return p;
}
void *vf_calloc(size_t a, size_t b)
{
	size_t n;
	if (__builtin_mul_overflow(a, b, &n))
	{
		alloc_calls++;
		errno = ENOMEM;
		return NULL;
	}
	VF_LOCK();
	cur_kind = 'c';
	if (should_fail(n))
	{
		VF_UNLOCK();
		return NULL;
	}
	void *p = calloc(1, n ? n : 1);
	if (!p)
		abort();
	tab_add(p, n);
	if (vf_alloc_hook)
		vf_alloc_hook(p, n);
	VF_UNLOCK();
	return p;
}
static void *vf_realloc_locked(void *p, size_t n);
static void vf_free_internal(void *p)
{
	struct blk *b = tab_find(p);
	if (!b)
	{
		mc_violation("seam:free-of-unknown-pointer", "free(%p): not a live block of this allocator (double free or foreign pointer)", p);
		abort();
	}
	size_t size = b->size;
	if (vf_free_hook)
		vf_free_hook(p, size);
	b->p = TOMB;
	tab_live--;
	live_bytes -= (long)size;
	memset(p, 0xDD, size);
	if (!vf_quarantine)
		free(p);
}
void vf_free(void *p)
{
	if (!p)
		return;
	VF_LOCK();
	vf_free_internal(p);
	VF_UNLOCK();
}
void *vf_realloc(void *p, size_t n)
{
	if (!p)
		return vf_malloc(n);
	VF_LOCK();
	void *r = vf_realloc_locked(p, n);
	VF_UNLOCK();
	return r;
}
static void *vf_realloc_locked(void *p, size_t n)
{
	struct blk *b = tab_find(p);
	if (!b)
	{
		mc_violation("seam:realloc-of-unknown-pointer", "realloc(%p): not a live block", p);
		abort();
	}
	cur_kind = 'r';
	if (should_fail(n))
		return NULL;
	size_t old = b->size;
	/* always move: stale pointers into the old block become visible */
	void *q = malloc(n ? n : 1);
	if (!q)
		abort();
	memset(q, 0xA5, n);
	memcpy(q, p, old < n ? old : n);
	tab_add(q, n);
	if (vf_alloc_hook)
		vf_alloc_hook(q, n);
	vf_free_internal(p);
	return q;
}
char *vf_strdup(const char *s)
{
	size_t n = strlen(s) + 1;
	char *p = vf_malloc(n);
	if (p)
		memcpy(p, s, n);
	return p;
}
int vf_vasprintf(char **out, const char *fmt, va_list ap)
{
	char *tmp = NULL;
	int n = vasprintf(&tmp, fmt, ap);
	if (n < 0)
	{
		*out = NULL;
		return -1;
	}
	char *p = vf_malloc((size_t)n + 1);
	if (!p)
	{
		free(tmp);
		*out = NULL;
		return -1;
	}
	memcpy(p, tmp, (size_t)n + 1);
	free(tmp);
	*out = p;
	return n;
}

/* ---------- locale objects ---------- */
locale_t vf_duplocale(locale_t l)
{
	VF_LOCK();
	cur_kind = 'l';
	int f = should_fail(0);
	VF_UNLOCK();
	if (f)
		return (locale_t)0;
	locale_t r = duplocale(l);
	if (r)
		__atomic_fetch_add(&locale_live, 1, __ATOMIC_SEQ_CST);
	return r;
}
locale_t vf_newlocale(int mask, const char *name, locale_t base)
{
	VF_LOCK();
	cur_kind = 'l';
	int f = should_fail(0);
	VF_UNLOCK();
	if (f)
		return (locale_t)0;
	locale_t r = newlocale(mask, name, base);
	if (r && !base)
		__atomic_fetch_add(&locale_live, 1, __ATOMIC_SEQ_CST);
	return r;
}
void vf_freelocale(locale_t l)
{
	if (l)
		__atomic_fetch_sub(&locale_live, 1, __ATOMIC_SEQ_CST);
	freelocale(l);
}

/* ---------- descriptors ---------- */
#define VF_NFD 8
#define VF_FD_BASE 1000
struct vfd
{
	int used, is_out;
	unsigned char *data;
	size_t len, pos, cap;
	char path[64];
};
static struct vfd fds[VF_NFD];
struct vffile
{
	char path[64];
	unsigned char *data;
	size_t len;
	int out_fd;
};
static struct vffile files[4];
static unsigned char *file_out[4];
static size_t file_out_len[4];
struct vf_fd_script vf_fds;
int (*vf_io_choice)(int is_write, size_t asked);

void vf_fd_reset(void)
{
	for (int i = 0; i < VF_NFD; i++)
	{
		free(fds[i].data);
		memset(&fds[i], 0, sizeof fds[i]);
	}
	for (int i = 0; i < 4; i++)
	{
		free(files[i].data);
		memset(&files[i], 0, sizeof files[i]);
		free(file_out[i]);
		file_out[i] = NULL;
		file_out_len[i] = 0;
	}
	memset(&vf_fds, 0, sizeof vf_fds);
}
static int fd_alloc(void)
{
	for (int i = 0; i < VF_NFD; i++)
		if (!fds[i].used)
		{
			memset(&fds[i], 0, sizeof fds[i]);
			fds[i].used = 1;
			return i;
		}
	return -1;
}
int vf_fd_new_input(const void *data, size_t len)
{
	int i = fd_alloc();
	if (i < 0)
		abort();
	fds[i].data = malloc(len ? len : 1);
	memcpy(fds[i].data, data, len);
	fds[i].len = len;
	return VF_FD_BASE + i;
}
int vf_fd_new_output(void)
{
	int i = fd_alloc();
	if (i < 0)
		abort();
	fds[i].is_out = 1;
	return VF_FD_BASE + i;
}
const unsigned char *vf_fd_output(int fd, size_t *len)
{
	struct vfd *f = &fds[fd - VF_FD_BASE];
	*len = f->len;
	return f->data ? f->data : (const unsigned char *)"";
}
void vf_fd_set_file(const char *path, const void *data, size_t len)
{
	for (int i = 0; i < 4; i++)
		if (!files[i].path[0])
		{
			snprintf(files[i].path, sizeof files[i].path, "%s", path);
			files[i].data = malloc(len ? len : 1);
			memcpy(files[i].data, data, len);
			files[i].len = len;
			return;
		}
	abort();
}
const unsigned char *vf_fd_file_output(const char *path, size_t *len)
{
	for (int i = 0; i < 4; i++)
		if (!strcmp(files[i].path, path))
		{
			*len = file_out_len[i];
			return file_out[i] ? file_out[i] : (const unsigned char *)"";
		}
	*len = 0;
	return NULL;
}
int vf_fd_open_count(void)
{
	int n = 0;
	for (int i = 0; i < VF_NFD; i++)
		n += fds[i].used;
	return n;
}
int vf_open(const char *path, int flags, ...)
{
	if (vf_fds.open_fail_errno)
	{
		errno = vf_fds.open_fail_errno;
		return -1;
	}
	int acc = flags & O_ACCMODE;
	for (int i = 0; i < 4; i++)
		if (files[i].path[0] && !strcmp(files[i].path, path))
		{
			if (acc == O_RDONLY)
			{
				int fd = vf_fd_new_input(files[i].data, files[i].len);
				return fd;
			}
			int fd = vf_fd_new_output();
			snprintf(fds[fd - VF_FD_BASE].path, sizeof fds[0].path, "%s", path);
			return fd;
		}
	if (acc != O_RDONLY && (flags & O_CREAT))
	{
		/* new output file */
		for (int i = 0; i < 4; i++)
			if (!files[i].path[0])
			{
				snprintf(files[i].path, sizeof files[i].path, "%s", path);
				int fd = vf_fd_new_output();
				snprintf(fds[fd - VF_FD_BASE].path, sizeof fds[0].path, "%s", path);
				return fd;
			}
	}
	errno = ENOENT;
	return -1;
}
int vf_close(int fd)
{
	int i = fd - VF_FD_BASE;
	if (i < 0 || i >= VF_NFD || !fds[i].used)
	{
		mc_violation("seam:close-of-unknown-fd", "close(%d): not an open descriptor of the harness", fd);
		errno = EBADF;
		return -1;
	}
	if (fds[i].is_out && fds[i].path[0])
		for (int k = 0; k < 4; k++)
			if (!strcmp(files[k].path, fds[i].path))
			{
				free(file_out[k]);
				file_out[k] = malloc(fds[i].len ? fds[i].len : 1);
				memcpy(file_out[k], fds[i].data ? fds[i].data : (unsigned char *)"", fds[i].len);
				file_out_len[k] = fds[i].len;
			}
	free(fds[i].data);
	memset(&fds[i], 0, sizeof fds[i]);
	return 0;
}
static int next_answer(int is_write, size_t asked)
{
	int idx = vf_fds.calls++;
	if (vf_io_choice)
		return vf_io_choice(is_write, asked);
	if (idx < vf_fds.n_answers)
		return vf_fds.answers[idx];
	return 0;
}
ssize_t vf_read(int fd, void *buf, size_t n)
{
	int i = fd - VF_FD_BASE;
	if (i < 0 || i >= VF_NFD || !fds[i].used || fds[i].is_out)
	{
		errno = EBADF;
		return -1;
	}
	size_t avail = fds[i].len - fds[i].pos;
	size_t k = n < avail ? n : avail;
	if (k == 0)
	{
		/* end of file: still a call, but no choice to make unless an error is scripted */
		int a = next_answer(0, 0);
		if (a < 0)
		{
			errno = -a;
			return -1;
		}
		return 0;
	}
	int a = next_answer(0, k);
	if (a < 0)
	{
		errno = -a;
		return -1;
	}
	if (a > 0 && (size_t)a < k)
		k = (size_t)a;
	memcpy(buf, fds[i].data + fds[i].pos, k);
	fds[i].pos += k;
	return (ssize_t)k;
}
ssize_t vf_write(int fd, const void *buf, size_t n)
{
	int i = fd - VF_FD_BASE;
	if (i < 0 || i >= VF_NFD || !fds[i].used || !fds[i].is_out)
	{
		errno = EBADF;
		return -1;
	}
	size_t k = n;
	int a = next_answer(1, n);
	if (a < 0)
	{
		errno = -a;
		return -1;
	}
	if (a > 0 && (size_t)a < k)
		k = (size_t)a;
	if (fds[i].len + k > fds[i].cap)
	{
		size_t nc = (fds[i].len + k) * 2 + 64;
		fds[i].data = realloc(fds[i].data, nc);
		fds[i].cap = nc;
	}
	memcpy(fds[i].data + fds[i].len, buf, k);
	fds[i].len += k;
	return (ssize_t)k;
}

/* ---------- seed ---------- */
uint32_t vf_seed_values[8] = {0x1234567};
int vf_seed_n = 1, vf_seed_calls;
uint32_t arc4random(void)
{
	int i = __atomic_fetch_add(&vf_seed_calls, 1, __ATOMIC_SEQ_CST);
	if (i >= vf_seed_n)
		i = vf_seed_n - 1;
	return vf_seed_values[i];
}
