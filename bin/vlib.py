"""Build + run support for the json-c model-checking harnesses (see DESIGN.md 6)."""
import hashlib, json, os, shutil, subprocess, sys, time, glob
from concurrent.futures import ThreadPoolExecutor

VERIF = os.path.dirname(os.path.dirname(os.path.abspath(__file__)))
REPO = os.environ.get("VERIF_REPO", "/repo")
BUILD = os.path.join(VERIF, "build")
NCPU = os.cpu_count() or 4

LIB_SOURCES = ["arraylist.c", "debug.c", "json_c_version.c", "json_object.c",
               "json_object_iterator.c", "json_patch.c", "json_pointer.c", "json_tokener.c",
               "json_util.c", "json_visit.c", "linkhash.c", "printbuf.c", "random_seed.c",
               "strerror_override.c"]

VARIANTS = {
    # name: (compiler, cflags, ldflags, cfg kind)
    "fast": ("gcc", ["-O2", "-g", "-fno-omit-frame-pointer"], [], "cfg"),
    "san": ("clang", ["-O1", "-g", "-fno-omit-frame-pointer",
                      "-fsanitize=address,undefined,float-cast-overflow",
                      "-fno-sanitize-recover=all"],
            ["-fsanitize=address,undefined,float-cast-overflow"], "cfg"),
    # C18: library instrumented by the tsan pass, linked against our own __tsan_* callbacks
    "thr": ("clang", ["-O0", "-g", "-DNDEBUG", "-fsanitize=thread", "-mllvm",
                      "-tsan-instrument-read-before-write"], ["-pthread"], "cfg_thr"),
    # C18 cross-check: real TSan runtime, free running
    "tsan": ("clang", ["-O1", "-g", "-DNDEBUG", "-fsanitize=thread"], ["-fsanitize=thread", "-pthread"], "cfg_thr"),
}


def sh(cmd, **kw):
    return subprocess.run(cmd, stdout=subprocess.PIPE, stderr=subprocess.STDOUT, text=True, **kw)


def _hash_files(paths, extra=""):
    h = hashlib.sha1(extra.encode())
    for p in sorted(paths):
        h.update(os.path.basename(p).encode())
        try:
            with open(p, "rb") as f:
                h.update(f.read())
        except OSError:
            h.update(b"<missing>")
    return h.hexdigest()[:16]


def _prune(parent, prefix, keep):
    ds = [d for d in glob.glob(os.path.join(parent, prefix + "*"))]
    ds.sort(key=lambda d: os.path.getmtime(d), reverse=True)
    for d in ds[keep:]:
        shutil.rmtree(d, ignore_errors=True) if os.path.isdir(d) else os.unlink(d)


def ensure_cfg(kind):
    """cmake configure only: config.h / json_config.h / json.h for this tree."""
    srcs = [os.path.join(REPO, "CMakeLists.txt")] + glob.glob(os.path.join(REPO, "cmake", "*")) + \
        glob.glob(os.path.join(REPO, "*.in")) + glob.glob(os.path.join(REPO, "*.cmakein"))
    key = _hash_files([os.path.relpath(p, REPO) for p in srcs] and srcs, kind)
    d = os.path.join(BUILD, f"{kind}-{key}")
    if os.path.exists(os.path.join(d, "config.h")) and os.path.exists(os.path.join(d, "json.h")):
        os.utime(d)
        return d
    os.makedirs(d, exist_ok=True)
    args = ["cmake", "-S", REPO, "-B", d, "-DCMAKE_BUILD_TYPE=Debug", "-DBUILD_TESTING=OFF",
            "-DBUILD_APPS=OFF", "-DDISABLE_WERROR=ON"]
    if kind == "cfg_thr":
        args.append("-DENABLE_THREADING=ON")
    r = sh(args)
    if r.returncode != 0 or not os.path.exists(os.path.join(d, "config.h")):
        sys.stderr.write(r.stdout)
        raise SystemExit(2)
    _prune(BUILD, kind + "-", 4)
    return d


def ensure_lib(variant):
    cc, cflags, _, cfgkind = VARIANTS[variant]
    cfg = ensure_cfg(cfgkind)
    files = glob.glob(os.path.join(REPO, "*.c")) + glob.glob(os.path.join(REPO, "*.h")) + \
        [os.path.join(VERIF, "mc", "vf_seams.h"), os.path.join(cfg, "config.h")]
    key = _hash_files(files, variant + " ".join(cflags) + cfg)
    d = os.path.join(BUILD, "lib", f"{variant}-{key}")
    objs = [os.path.join(d, s[:-2] + ".o") for s in LIB_SOURCES]
    if all(os.path.exists(o) for o in objs):
        os.utime(d)
        return d, cfg, objs
    os.makedirs(d, exist_ok=True)

    def one(src):
        o = os.path.join(d, src[:-2] + ".o")
        cmd = [cc] + cflags + ["-D_GNU_SOURCE", "-w", "-I", cfg, "-I", REPO,
                               "-include", os.path.join(VERIF, "mc", "vf_seams.h"),
                               "-c", os.path.join(REPO, src), "-o", o]
        return src, sh(cmd)
    with ThreadPoolExecutor(NCPU) as ex:
        for src, r in ex.map(one, LIB_SOURCES):
            if r.returncode != 0:
                sys.stderr.write(f"compile of {src} failed:\n{r.stdout}\n")
                raise SystemExit(2)
    _prune(os.path.join(BUILD, "lib"), variant + "-", 3)
    return d, cfg, objs


MC_SOURCES = ["mc/mc.c", "mc/vf.c", "mc/vmodel.c", "mc/bfs.c"]


def ensure_exe(harness, variant, extra_sources=(), extra_cflags=(), extra_ld=()):
    cc, cflags, ldflags, _ = VARIANTS[variant]
    libdir, cfg, objs = ensure_lib(variant)
    srcs = [os.path.join(VERIF, "harness", harness + ".c")] + \
        [os.path.join(VERIF, s) for s in MC_SOURCES] + [os.path.join(VERIF, s) for s in extra_sources]
    hdrs = glob.glob(os.path.join(VERIF, "mc", "*.h")) + glob.glob(os.path.join(VERIF, "harness", "*.h"))
    key = _hash_files(srcs + hdrs, libdir + " ".join(extra_cflags))
    exe = os.path.join(BUILD, "exe", f"{harness}-{variant}-{key}")
    if os.path.exists(exe):
        os.utime(exe)
        return exe
    os.makedirs(os.path.dirname(exe), exist_ok=True)
    # harness + mc units: same sanitizer flags (except the tsan pass for 'thr': our hooks must not be instrumented)
    hflags = list(cflags)
    if variant == "thr":
        hflags = ["-O1", "-g"]
    cmd = [cc] + hflags + list(extra_cflags) + ["-D_GNU_SOURCE", "-Wall", "-Wno-unused-function", "-Werror=implicit-function-declaration",
                                                 "-I", cfg, "-I", REPO, "-I", os.path.join(VERIF, "mc"),
                                                 "-I", os.path.join(VERIF, "harness")] + srcs + objs + \
        ["-o", exe + ".tmp"] + ldflags + list(extra_ld) + ["-lm"]
    r = sh(cmd)
    if r.returncode != 0:
        # The harnesses read a few library-internal structs, only to MERGE explored states.  If such a
        # struct changed so that this no longer compiles, fall back to keys built from the reference
        # model / the path alone (less merging, same verdicts) instead of failing the check.
        r2 = sh(cmd[:1] + ["-DMC_NO_INTROSPECTION"] + cmd[1:])
        if r2.returncode != 0:
            sys.stderr.write(f"build of {harness} ({variant}) failed:\n{r.stdout}\n")
            raise SystemExit(2)
        open(exe + ".nointro", "w").write(r.stdout[-2000:])
    elif os.path.exists(exe + ".nointro"):
        os.unlink(exe + ".nointro")
    os.replace(exe + ".tmp", exe)
    _prune(os.path.join(BUILD, "exe"), f"{harness}-{variant}-", 2)
    return exe


SAN_ENV = {
    "ASAN_OPTIONS": "abort_on_error=1:handle_segv=0:handle_abort=0:handle_sigbus=0:handle_sigfpe=0:"
                    "detect_leaks=0:allocator_may_return_null=1:detect_stack_use_after_return=0:"
                    "symbolize=1:print_summary=1",
    "UBSAN_OPTIONS": "abort_on_error=1:print_stacktrace=1:symbolize=1",
    "TSAN_OPTIONS": "halt_on_error=1:exitcode=66:report_signal_unsafe=0:second_deadlock_stack=0",
    "LC_ALL": "C",
}


class ShardResult:
    def __init__(self):
        self.stats = {}
        self.maxes = {}
        self.viols = []      # (sig, desc, msg)
        self.violcount = {}
        self.samples = []
        self.infos = []
        self.done = False
        self.exhaustive = True
        self.why = ""
        self.wall = 0.0
        self.rc = None
        self.stderr_tail = ""


def parse_out(path, res):
    try:
        with open(path, "r", errors="replace") as f:
            for line in f:
                parts = line.rstrip("\n").split("\t")
                if parts[0] == "STAT" and len(parts) >= 3:
                    res.stats[parts[1]] = res.stats.get(parts[1], 0) + int(parts[2])
                elif parts[0] == "MAX" and len(parts) >= 3:
                    res.maxes[parts[1]] = max(res.maxes.get(parts[1], 0), int(parts[2]))
                elif parts[0] == "VIOL" and len(parts) >= 4:
                    res.viols.append((parts[1], parts[2], parts[3]))
                elif parts[0] == "VIOLCOUNT" and len(parts) >= 3:
                    res.violcount[parts[1]] = res.violcount.get(parts[1], 0) + int(parts[2])
                elif parts[0] == "SAMPLE" and len(parts) >= 2:
                    res.samples.append(parts[1])
                elif parts[0] == "INFO" and len(parts) >= 2:
                    res.infos.append(parts[1])
                elif parts[0] == "DONE" and len(parts) >= 4:
                    res.done = True
                    if parts[1] != "1":
                        res.exhaustive = False
                        res.why = parts[2]
                    res.wall = max(res.wall, float(parts[3]))
    except OSError:
        pass


def run_shards(exe, args, nshards, tier, outdir, tag, deadline_s, env_extra=None, timeout_s=None):
    """Runs nshards processes of one harness; returns merged ShardResult."""
    os.makedirs(outdir, exist_ok=True)
    env = dict(os.environ)
    env.update(SAN_ENV)
    if env_extra:
        env.update(env_extra)
    procs = []
    for i in range(nshards):
        out = os.path.join(outdir, f"{tag}.{i}.out")
        err = os.path.join(outdir, f"{tag}.{i}.err")
        cmd = [exe, f"tier={tier}", f"shard={i}/{nshards}", f"out={out}", f"deadline={deadline_s}"] + list(args)
        ef = open(err, "w")
        penv = dict(env)
        penv["ASAN_OPTIONS"] = penv.get("ASAN_OPTIONS", "") + ":log_path=" + os.path.join(outdir, f"{tag}.{i}.asan")
        penv["UBSAN_OPTIONS"] = penv.get("UBSAN_OPTIONS", "") + ":log_path=" + os.path.join(outdir, f"{tag}.{i}.ubsan")
        penv["TSAN_OPTIONS"] = penv.get("TSAN_OPTIONS", "") + ":log_path=" + os.path.join(outdir, f"{tag}.{i}.tsan")
        procs.append((subprocess.Popen(cmd, stdout=ef, stderr=ef, env=penv, cwd=VERIF), out, err, ef))
    merged = ShardResult()
    t_end = time.time() + (timeout_s or (deadline_s + 120))
    for p, out, err, ef in procs:
        try:
            rc = p.wait(timeout=max(1, t_end - time.time()))
        except subprocess.TimeoutExpired:
            p.kill()
            rc = -9
        ef.close()
        one = ShardResult()
        parse_out(out, one)
        one.rc = rc
        if rc != 0 or not one.done:
            try:
                with open(err, "r", errors="replace") as f:
                    tail = f.read()[-3000:]
            except OSError:
                tail = ""
            merged.stderr_tail += f"[shard {tag} rc={rc} done={one.done}]\n{tail}\n"
            merged.rc = rc if rc != 0 else 2
            if not one.done:
                merged.exhaustive = False
                merged.why = merged.why or f"shard {tag} did not finish (rc={rc})"
        for k, v in one.stats.items():
            merged.stats[k] = merged.stats.get(k, 0) + v
        for k, v in one.maxes.items():
            merged.maxes[k] = max(merged.maxes.get(k, 0), v)
        merged.viols += one.viols
        for k, v in one.violcount.items():
            merged.violcount[k] = merged.violcount.get(k, 0) + v
        merged.samples += one.samples[:3]
        merged.infos += one.infos
        if not one.exhaustive:
            merged.exhaustive = False
            merged.why = merged.why or one.why
        merged.wall = max(merged.wall, one.wall)
    if merged.rc is None:
        merged.rc = 0
    return merged


def load_known():
    """known_findings.txt: 'finding: property=Cxx sig=<sig> <what fails>' / 'fixed: property=Cxx <commit> <what failed>'"""
    known = {}
    p = os.path.join(VERIF, "known_findings.txt")
    if not os.path.exists(p):
        return known
    for line in open(p):
        line = line.strip()
        if not line.startswith("finding:"):
            continue
        toks = line.split()
        prop = sig = None
        rest = []
        for t in toks[1:]:
            if t.startswith("property=") and prop is None:
                prop = t[9:]
            elif t.startswith("sig=") and sig is None:
                sig = t[4:]
            else:
                rest.append(t)
        if prop and sig:
            known[(prop, sig)] = " ".join(rest)
    return known
