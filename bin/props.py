"""Registry: which harnesses decide which property, with what bounds."""
import os

COMMON_ASSUMPTIONS = [
    "one platform configuration (glibc, x86-64, uselocale/duplocale, arc4random, default cmake options)",
    "the reference models are correct (cross-validated by bin/selftest against Python)",
    "behaviour outside the stated alphabets and bounds is not covered",
]

PROPS = {
    "C01": dict(
        level="model_checking",
        runs=[dict(harness="c01", variant="fast", shards=16)],
        deadline=dict(quick=240, thorough=1500),
        rule="every member of complete sub-languages of RFC 8259 (all \\uXXXX units x hex case, all supplementary "
             "scalar values as pairs, 2048 surrogates x 16 followers, all number strings over {-019.eE+} up to the length "
             "bound that match the grammar, boundary lattice, tree family T(2,2) with whitespace deviations, T(1,3), "
             "nesting chains to 31, raw UTF-8 boundaries) x {default,strict} x {NUL-terminated, exact length + guard page}; "
             "non-trivial = distinct text whose parsed dump is longer than a scalar tag",
        bound=dict(quick="number strings <= 6 bytes; supplementary pairs at bit-field edges; ws deviations on T(1,2) only",
                   thorough="number strings <= 8 bytes; all 1,048,576 supplementary pairs; ws deviations on all of T(2,2)"),
        states_stat="cases", transitions_stat="calls",
        technique="exhaustive enumeration of bounded input languages executed on the real parser, compared with a reference reader",
        claim="every text of the enumerated sub-languages was parsed by the real code in both modes and both delivery forms "
              "and its typed dump compared with an independent RFC 8259 reader; a complete family leaves no position-dependent "
              "escape/number/structure defect inside the bound unobserved",
        note="reference reader + value model (mc/vmodel.c) trusted; glibc strtod as correctly rounded conversion; texts longer/deeper than the families not covered",
        assumptions=COMMON_ASSUMPTIONS + ["strtod of glibc in the C locale is the correctly rounded conversion (pinned by selftest against Python float)"],
    ),
}

NOT_APPLICABLE = {}
