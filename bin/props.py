"""Registry: which harnesses decide which property, with what bounds."""
import os

COMMON_ASSUMPTIONS = [
    "one platform configuration (glibc, x86-64, uselocale/duplocale, arc4random, default cmake options)",
    "the reference models are correct (cross-validated by bin/selftest against Python)",
    "behaviour outside the stated alphabets and bounds is not covered",
]

PROPS = {
    "C01": dict(
        level="model_checking",
        runs=[dict(harness="c01", variant="fast", shards=16)],
        deadline=dict(quick=240, thorough=1500),
        rule="every member of complete sub-languages of RFC 8259 (all \\uXXXX units x hex case, all supplementary "
             "scalar values as pairs, 2048 surrogates x 16 followers, all number strings over {-019.eE+} up to the length "
             "bound that match the grammar, boundary lattice, tree family T(2,2) with whitespace deviations, T(1,3), "
             "nesting chains to 31, raw UTF-8 boundaries, strings/names/numbers crossing the 32/64/128-byte scanner buffer steps with an escape at every position) x {default,strict} x {NUL-terminated, exact length + guard page}; "
             "non-trivial = distinct text whose parsed dump is longer than a scalar tag",
        bound=dict(quick="number strings <= 6 bytes; supplementary pairs at bit-field edges; ws deviations on T(1,2) only; scale: 200..1100-byte numbers, wide containers to 300 members, pairs of 3000..20000-byte strings",
                   thorough="number strings <= 8 bytes; all 1,048,576 supplementary pairs; ws deviations on all of T(2,2); scale families as in quick"),
        states_stat="cases", transitions_stat="calls",
        technique="exhaustive enumeration of bounded input languages executed on the real parser, compared with a reference reader",
        claim="every text of the enumerated sub-languages was parsed by the real code in both modes and both delivery forms "
              "and its typed dump compared with an independent RFC 8259 reader; a complete family leaves no position-dependent "
              "escape/number/structure defect inside the bound unobserved",
        note="reference reader + value model (mc/vmodel.c) trusted; glibc strtod as correctly rounded conversion; texts longer/deeper than the families not covered",
        assumptions=COMMON_ASSUMPTIONS + ["strtod of glibc in the C locale is the correctly rounded conversion (pinned by selftest against Python float)"],
    ),
    "C02": dict(
        level="model_checking",
        runs=[dict(harness="c02", variant="fast", shards=16)],
        deadline=dict(quick=240, thorough=1500),
        rule="trees built through the API (all byte strings of length 0..2 incl. NUL and invalid UTF-8, escape-relevant bytes at every "
             "position of runs of length 3..40 crossing the 32-byte buffer growth, integer boundary lattice in both signednesses, "
             "doubles m*10^e / every binade boundary and neighbours / exponent shapes / retained text, tree family T(2,2,L,{a,'',/}), "
             "nesting chains to 40) x all 64 flag sets; non-trivial = distinct tree whose text is longer than 6 bytes",
        bound=dict(quick="2-byte strings with a special byte in either slot; m<=99, e step 7; T(2,2) over 4 leaves; scale: strings and names of 127..4097 bytes with every control byte at 6 positions, containers to 129 members, nesting to 120",
                   thorough="all 65,536 2-byte strings; m<=999, every e in -330..310; T(2,2) over 6 leaves; scale families as in quick"),
        states_stat="cases", transitions_stat="calls",
        technique="exhaustive enumeration of API-built trees x all 64 flag sets on the real serializer, judged by a reference reader and round trip",
        claim="for every enumerated tree and every one of the 64 flag combinations the real serializer's text was read by an independent "
              "strict RFC 8259 reader and compared with the tree, compared across flag sets modulo whitespace/colour, re-parsed and re-serialized by json-c",
        note="reference reader trusted; doubles limited to the enumerated decimal/binade families (2^64 bit patterns are not enumerable); custom double formats out of scope",
        assumptions=COMMON_ASSUMPTIONS,
    ),
    "C03": dict(
        level="model_checking",
        runs=[dict(harness="parsegraph", variant="fast", shards=16, args=["mode=c03"], tag="c03")],
        deadline=dict(quick=300, thorough=2400),
        rule="for each text of the families (F1 token sequences over 22 tokens, F2 byte-complete strings over per-scanner alphabets, "
             "F3 documents/streams) x 8 flag sets x {as is, with final NUL}: the whole partition lattice as a graph of (position, exact "
             "parser state) nodes, every node carried to every longer prefix; non-trivial = distinct (text, flags) longer than 2 bytes that "
             "is not rejected at its first byte",
        bound=dict(quick="F1 <= 3 tokens; F2 alphabets one byte shorter than thorough", thorough="F1 <= 4 tokens; F2 numbers <= 6, escapes <= 7, literals <= 5, comments <= 6, utf-8 <= 4 bytes"),
        states_stat="nodes", transitions_stat="edges",
        technique="explicit-state exploration of the partition lattice of each text on the real tokener, merged on exact parser state, per-prefix differential oracle",
        claim="all 2^(n-1) ways to split every enumerated text into calls are covered (graph with exact-state merging); every partition's outcome at every "
              "prefix equals one call on the same bytes, and resuming after a success equals a fresh parser",
        note="state key reads struct json_tokener (public header) for merging only; alarms are raised on API-observable outcomes only",
        assumptions=COMMON_ASSUMPTIONS,
    ),
    "C04": dict(
        level="model_checking",
        runs=[dict(harness="parsegraph", variant="san", shards=16, args=["mode=c04"], tag="c04")],
        deadline=dict(quick=420, thorough=3000),
        rule="(a) every byte string of length <= 2 (thorough: 3, third byte from 32 class representatives) over all 256 values x 8 flag sets x depth limits {1,2,32}, "
             "whole partition lattice, exact length against a guard page, ASan+UBSan build; (b) the C03 families in the sanitizer build; (c) after every distinct "
             "(outcome, parser state) of those graphs: json_tokener_reset then 30 probe texts and probe/reset/probe sequences compared with a new parser; "
             "non-trivial = distinct (text, flags) not rejected at its first byte",
        bound=dict(quick="arbitrary bytes <= 2; C03 quick families F2 (scanner alphabets) and F3 (documents/streams)", thorough="arbitrary bytes <= 3 (third byte from 32 class representatives); C03 quick-size families incl. F1 token sequences <= 3, all 30 probes and probe/reset/probe sequences"),
        states_stat="nodes", transitions_stat="edges",
        technique="explicit-state exploration of parse/reset/parse histories on the real tokener under ASan/UBSan with a guard page, fresh-parser differential oracle",
        claim="every call in every partition of every enumerated byte string terminated with exactly one of the three outcomes, within bounds, without a sanitizer report; "
              "after every reachable outcome a reset parser answered 30 probes exactly like a new one, and nothing stayed allocated after free",
        note="sanitizers + guard page + allocation accounting as oracles; probe set chosen to read every persistent scanner field",
        assumptions=COMMON_ASSUMPTIONS,
    ),
    "C15": dict(
        level="model_checking",
        runs=[dict(harness="parsegraph", variant="san", shards=16, args=["mode=c15"], tag="c15")],
        deadline=dict(quick=300, thorough=1800),
        rule="depth limits D x every opener sequence over {[, {\"k\":} of length 0..D+2 (all 2^k shapes up to k=10, three regular patterns beyond) x innermost in "
             "{1, \"\", [], {}, empty container} x {with, without a shallow sibling first} x {default, strict}; one shot (NUL-terminated) and, for small D, the whole partition "
             "lattice; refused D in {0,-1,INT_MIN}; 20000-deep unclosed hostile input one-shot and bytewise; non-trivial = document whose deepest enclosure is D-1 or beyond",
        bound=dict(quick="D in 1..8, lattice for D<=4", thorough="D in 1..34 (contains the default 32), lattice for D<=8"),
        states_stat="cases", transitions_stat="calls",
        technique="exhaustive enumeration of nesting shapes x depth limits on the real tokener (ASan build), enclosure-depth reference reader as oracle",
        claim="acceptance, error kind, error position and peak allocation were compared with an enclosure-depth reference for every shape at, below and beyond every limit; "
              "any access past the level stack is an ASan report",
        note="peak-allocation bound is 8*D+8 blocks (node + container + key per level, with slack)",
        assumptions=COMMON_ASSUMPTIONS,
    ),
    "C10": dict(
        level="model_checking",
        runs=[dict(harness="c10", variant="san", shards=8)],
        deadline=dict(quick=240, thorough=900),
        rule="node kinds x boundary lattices (int64/uint64 around 0, 2^31, 2^32, 2^53, 2^63, 2^64; doubles b+{-1.5..1.5} and neighbours around the same bounds, "
             "subnormals, infinities, NaN) x 5 accessors; every string over {space,tab,-,+,0,1,9,.,e,x} up to the length bound plus decimal spellings of the lattice; "
             "one int node under set_int64/set_uint64/set_int/int_inc: all (value, operation) pairs and BFS over reachable values merged on the exact value; "
             "non-trivial = distinct case description",
        bound=dict(quick="strings <= 4 bytes; mutation depth 3", thorough="strings <= 6 bytes; mutation depth 5"),
        states_stat="cases", transitions_stat="calls",
        technique="exhaustive enumeration of boundary lattices and explicit-state search of an integer node on the real accessors (UBSan build), exact 128-bit integer reference",
        claim="each accessor result was compared with an exact-integer / exact-double-comparison reference for every lattice point and every short string; every set/inc history "
              "to the depth bound was checked step by step; float-cast-overflow and signed overflow abort under UBSan and are attributed to the value",
        note="errno is compared only where the statement/header fix it; double->string->double uses glibc strtod on both sides",
        assumptions=COMMON_ASSUMPTIONS,
    ),
    "C19": dict(
        level="model_checking",
        runs=[dict(harness="c19", variant="san", shards=16)],
        deadline=dict(quick=240, thorough=2700),
        rule="BFS over histories of printbuf_memappend / memappend_fast / memset / sprintbuf / reset whose size and offset arguments are taken relative to the "
             "current (bpos,size): room-2..room+1, 2*size, -1, INT_MAX-bpos-{1,0,9}; offsets -2,-1,0,bpos-1..bpos+1,size-1,size,size+3 x lengths 0,1,size-off-1..+1, "
             "INT_MAX-off(+1), -1; formatted output of 0,5,127,128,129,300 bytes; states merged on (bpos,size,contents); non-trivial = distinct state",
        bound=dict(quick="4 operations after the start state; start states: empty, 31 and 4000 bytes already written; growth capped at 2.5x the start fill (4x from 8190 bytes on)", thorough="5 operations; start states empty, 31, 4000, 8190, 16383, 65530 bytes"),
        states_stat="states", transitions_stat="transitions",
        technique="explicit-state BFS of operation histories on the real printbuf (ASan build), byte-array reference model checked after every transition",
        claim="after every transition of every history to the depth bound the buffer's length and bytes equal a plain byte-array model, appended text is NUL-terminated "
              "inside the allocation, refused requests leave it unchanged; ASan flags any write outside the allocation",
        note="histories are replayed on fresh buffers; the allocator seam refuses requests >= 256 MiB so INT_MAX-adjacent sizes exercise the guards without allocating",
        assumptions=COMMON_ASSUMPTIONS,
    ),
    "C07": dict(
        level="model_checking",
        runs=[dict(harness="c07", variant="san", shards=16)],
        deadline=dict(quick=240, thorough=1800),
        rule="BFS over histories on arrays created with capacity 0,1,2,default: add, put_idx/insert_idx at {0,len-1,len,len+1,len+3,SIZE_MAX-1,SIZE_MAX} with an element or NULL, "
             "del_idx(i,n) with i in {0,len-1,len,len+1,SIZE_MAX} and n in {0,1,len-i,len-i+1,SIZE_MAX}, shrink(0,1,len); get_idx over 0..len+2 after each step; states merged on "
             "(length, capacity, null pattern); plus sort/bsearch on every array over {0,1,2} up to the length bound; non-trivial = distinct state / distinct sorted input",
        bound=dict(quick="depth 6 (creation + 5 operations) from 6 initial states (capacities 0,1,2,default, pre-filled to 31 and 32), growth capped at +13; sort inputs <= 6 elements; scale scripts to 1025 elements", thorough="depth 8 from 9 initial states (capacities 0,1,2,default and arrays pre-filled to 31,32,33,63,64 elements); sort inputs <= 7 elements; scale scripts to 1025 elements"),
        states_stat="states", transitions_stat="transitions",
        technique="explicit-state BFS of operation histories on the real array (ASan build, poison-filled allocator), list reference model and exact release-set oracle",
        claim="after every transition length, element identity at every index, NULL past the end, return code and the exact set of elements destroyed equal a plain list model; "
              "refused operations change nothing and leave the value with the caller; at the end every element died exactly once and nothing stays allocated",
        note="element destruction observed through json_object_set_userdata delete callbacks; capacity read from struct array_list for merging only",
        assumptions=COMMON_ASSUMPTIONS,
    ),
    "C06": dict(
        level="model_checking",
        runs=[dict(harness="c06", variant="san", shards=16, args=["level=a"], tag="lh_table"),
              dict(harness="c06", variant="san", shards=32, args=["level=b"], tag="object")],
        deadline=dict(quick=400, thorough=3600),
        rule="level A: lh_table with harness hash/equality, every assignment of hashes {0,1,2,3,5} to the keys x initial size 1..4, operations insert / insert(constant key) / "
             "delete / delete_entry / resize(1,size,2*size), BFS to a fix-point merged on (slot array incl. tombstones, order list, size); level B: json_object with keys "
             "{'', a, b, 300-byte, two keys searched to collide with 'a' modulo 16 and 32} x both string hashes x 4 seeds, from the empty object and from 10 insertions "
             ", 21 and 42 insertions (so the 16->32, 32->64 and 64->128 growths are inside the bound), operations add / add_ex(KEY_IS_NEW) / add_ex(CONSTANT_KEY) / add NULL / del; oracle after every transition: "
             "length, lookup of every key, 5 iteration forms, serialization, release set, and foreach-with-deletion at every position; non-trivial = distinct state",
        bound=dict(quick="level A 3 keys (500 configurations) to fix-point; level B depth 4 from prefixes 0, 10, 21; scale script: 1100-key fill and 4 churn rounds under both hash functions, model compared at every growth", thorough="level A 4 keys (2500 configurations) to fix-point; level B depth 6 (depth 5 from the 21- and 42-member prefixes); scale script as in quick"),
        states_stat="states", transitions_stat="transitions",
        technique="explicit-state BFS of operation histories on the real hash table / object (ASan build) to a fix-point, ordered-map reference model",
        claim="every reachable table state (all collision patterns, tombstone chains, wrap-around, growth with tombstones) for the key universe was visited and compared with an "
              "ordered map after every transition, including all iteration forms and deletion of the current key during foreach",
        note="slot array read from struct lh_table for merging only; level B seeds injected through arc4random",
        assumptions=COMMON_ASSUMPTIONS,
    ),
    "C11": dict(
        level="model_checking",
        runs=[dict(harness="c11", variant="san", shards=16)],
        deadline=dict(quick=240, thorough=900),
        rule="string node created with length in {0,1,7,8,9,31,32,33,100} x 3 content patterns (ASCII, embedded NUL + 0xFF, non-UTF-8), then any history of "
             "set_string_len(pattern, n in {0,1,7,8,9,15,16,17,40,100}), the same with its allocation failed, set_string (strlen-based, argument with an embedded NUL), "
             "and refused lengths (INT_MAX-1, INT_MAX, negative); BFS to a fix-point merged on (creation length, inline/separate, length, pattern); non-trivial = distinct state",
        bound=dict(quick="fix-point (finite state space) over lengths 0..256 at every storage-class boundary", thorough="fix-point over lengths 0..70000 (adds 255, 256, 65535, 65536, 70000)"),
        states_stat="states", transitions_stat="transitions",
        technique="explicit-state BFS to a fix-point on the real string node (ASan build, allocation fault plan), byte-string reference model",
        claim="in every reachable state the reported length, the bytes, the terminating NUL, equality (both directions, against equal/different/shorter nodes), deep copy and the "
              "serialization read back by the reference reader equal the model; a failed or refused set leaves the contents intact; nothing leaks across inline/separate transitions",
        note="representation (inline vs separate) read from json_object_private.h for merging only",
        assumptions=COMMON_ASSUMPTIONS,
    ),
    "C09": dict(
        level="model_checking",
        runs=[dict(harness="c09", variant="san", shards=16)],
        deadline=dict(quick=240, thorough=1200),
        rule="family E: 28 leaves (null, booleans, int64/uint64 with equal and boundary values, doubles incl. +-0, inf and two separately built NaNs, strings incl. embedded NUL, "
             "inline and separately stored bytes) + all arrays/objects with <= 2 children over a sub-family (objects in both member orders) at two nesting levels; ALL ordered pairs "
             "judged against value-model equality, symmetry/transitivity of the computed relation by union-find closure; deep copy of every member and of parsed trees with retained "
             "number text: equal, same typed dump, byte-identical under all 64 flag sets, disjoint node sets, mutation of every node position in either tree, destruction of the source; "
             "non-trivial = distinct family member",
        bound=dict(quick="children from 8 leaves / 7 depth-1 values (416 trees)", thorough="children from all 28 leaves / 20 depth-1 values (3 716 trees, 13.8e6 ordered pairs)"),
        states_stat="cases", transitions_stat="calls",
        technique="exhaustive enumeration of all ordered pairs of a complete tree family on the real json_object_equal / deep_copy (ASan build), value-model reference",
        claim="equality was evaluated on every ordered pair of the family and equals value-model equality, the computed relation is closed (reflexive, symmetric, transitive); every member "
              "was deep-copied and each node of copy and source mutated in turn without affecting the other",
        note="value model mc/vmodel.c trusted",
        assumptions=COMMON_ASSUMPTIONS,
    ),
    "C12": dict(
        level="model_checking",
        runs=[dict(harness="c12", variant="san", shards=16)],
        deadline=dict(quick=300, thorough=2400),
        rule="trees: every value of nesting <= 1 with <= 2 children over leaves {1,null,'s'} and member names {'',a,/,~,~0,~1,a/b,m~n,0,01,-,1} (all ordered name pairs), plus "
             "nesting-2 containers over a pool of such values with all name pairs; pointers: the correctly escaped pointer of every node, every string over {/,~,0,1,a,-} up to the "
             "length bound, and one-step-beyond targets (new key, -, index len, len+1, escaped keys, empty token); operations get, getf, getf with split format, set and setf with an int, "
             "null and container value; non-trivial = distinct container tree",
        bound=dict(quick="get: all 9331 strings <= 5 on nesting-1 trees, <= 4 on nesting-2 (pool of 8); set: <= 4 / <= 3; plus documents with 100..300-byte keys, 12-level nesting, array indices to 2^32+k", thorough="get <= 5 everywhere (pool of 16); set <= 5 / <= 4; scale documents as in quick"),
        states_stat="cases", transitions_stat="calls",
        technique="exhaustive enumeration of adversarial-key trees x all short pointer strings on the real json_pointer code (ASan build), RFC 6901 evaluator over the value model as oracle",
        claim="for every (tree, pointer) pair success/failure equals RFC 6901 evaluation, a successful lookup returns the very node found by walking the tree, set places the value exactly "
              "where the reference does and nowhere else, ownership moves only on success, failures leave the tree unchanged; printf-style variants agree",
        note="pointers with a '~' not followed by 0 or 1 are syntactically invalid in RFC 6901; their (lenient) handling is not compared; array set beyond the end follows C07 (null gaps)",
        assumptions=COMMON_ASSUMPTIONS,
    ),
    "C13": dict(
        level="model_checking",
        runs=[dict(harness="c13", variant="san", shards=16)],
        deadline=dict(quick=420, thorough=3000),
        rule="(a) 10 target documents (nested containers, names needing escapes, '', nulls as member and element, prefix-like sibling names a/ab/'a/b') x every sequence of operations up to "
             "the length bound from a menu regenerated from the document as evolved by the reference: {add,replace,remove,test,move,copy} x path in {pointer of every node, every container "
             "+ new name / escaped new name / - / index len / len+1, 3 malformed} x 4 values x from in every node pointer (+ absent); both calling conventions; (b) full product of "
             "15 op values x 9 path values x 3 value x 7 from values (absent, null, numbers, booleans, containers, strings) as a one-element patch and after a valid element, non-object elements, "
             "non-array patches, argument-shape errors; non-trivial = distinct (patch, calling convention)",
        bound=dict(quick="sequences of length <= 2; targets include a 12-element array and indices to 2^32+k", thorough="sequences of length <= 3 with the reduced menu (2 values, every other from)"),
        states_stat="cases", transitions_stat="calls",
        technique="exhaustive enumeration of patch operation sequences over evolving documents on the real json_patch code (ASan build, crash isolated), RFC 6902 interpreter over the value model as oracle",
        claim="for every enumerated (document, patch) success/failure, the failing index and the resulting document equal sequential RFC 6902 evaluation; the patch document is unchanged; "
              "values added or copied are independent of their source (mutation probe); malformed patches produce an error, never a crash, leak or invalid access",
        note="document contents after a failed patch, removal of the whole document and pointers with invalid '~' escapes are not compared (unspecified by the statement)",
        assumptions=COMMON_ASSUMPTIONS,
    ),
    "C17": dict(
        level="model_checking",
        runs=[dict(harness="c17", variant="san", shards=16)],
        deadline=dict(quick=240, thorough=1800),
        rule="every tree shape with up to the node bound over kinds {int leaf, null, array, object} (empty containers included); the callback is a choice point returning one of "
             "CONTINUE, SKIP, POP, STOP, ERROR, 42: every assignment of codes to calls, enumerated by stateless DFS over choice vectors (the traversal determines the vector length), "
             "with at most k non-CONTINUE answers for the larger trees; non-trivial = distinct tree",
        bound=dict(quick="trees <= 5 nodes; all assignments for <= 3 nodes, <= 3 deviations beyond", thorough="trees <= 7 nodes; all assignments for <= 4 nodes, <= 4 deviations beyond"),
        states_stat="cases", transitions_stat="runs",
        technique="stateless exhaustive exploration of callback return-code assignments (choice points) on the real visitor, reference traversal as oracle",
        claim="for every tree shape and every assignment of return codes within the bound, the exact sequence of calls (node, first/second visit, parent, key or index) and the final "
              "result equal a 40-line reference traversal",
        note="whether a container skipped on its first visit still receives its second call is left open by the statement and not compared",
        assumptions=COMMON_ASSUMPTIONS,
    ),
    "C05": dict(
        level="model_checking",
        runs=[dict(harness="c05", variant="san", shards=16)],
        deadline=dict(quick=400, thorough=3000),
        rule="BFS over histories on a pool of 3 handle slots: constructors (object/array/int), get, put, object_add (new key, replace, NULL value, self-add), object_del, array_add, "
             "array_put_idx {0,1,3}, array_insert_idx {0,1}, array_del_idx, array_shrink, an extra reference taken through object_get / array_get_idx + get, set_userdata / set_serializer (replacing the callback), deep_copy (tracked shallow copy), json_pointer_set "
             "('', /a, /0, /a/b, /-), json_patch_apply (6 patches: remove, move, add, test+remove); operations enabled only when they follow the ownership rules (the pool gives away a "
             "reference it owns, no cycle); states merged on the canonical reference-count graph; at every state all references are drained in every slot order; non-trivial = distinct state",
        bound=dict(quick="history depth 6; scale scripts: 255..200000 references per node, containers with 100..1000 children", thorough="history depth 7; scale scripts as in quick"),
        states_stat="states", transitions_stat="transitions",
        technique="explicit-state BFS of API call histories on the real reference-counted tree (ASan build), reference-count graph model predicting the exact destruction set of every call",
        claim="for every transition the return code and the exact set of destruction callbacks equal the ownership model (nothing early, late or twice), every node the pool still owns dumps "
              "to the model's value, json_object_put reports 'freed' exactly then, and draining all references in any order leaves no allocation",
        note="node destruction observed through json_object_set_userdata delete callbacks (one token per node, re-issued by set_userdata); ASan makes a dangling reference fault",
        assumptions=COMMON_ASSUMPTIONS,
    ),
    "C08": dict(
        level="fault_enumeration",
        runs=[dict(harness="c08", variant="san", shards=16)],
        deadline=dict(quick=300, thorough=1800),
        rule="80 deterministic workloads (parse of 8 documents forcing every growth path, parse / memory error / reset / parse again on the same parser, adds into a table full of tombstones and into a shrunk array, set_string on separately stored strings, each constructor, member add with/without table growth and replace, array add/insert/put with growth, "
             "set_string growing, deep copy, serialization of a 41-element tree under 3 flag sets, pointer get/getf/set/setf, one patch per operation kind in place and with copy_from, "
             "tokener creation, from_fd/to_fd, double-format option, equal/visit/get_string); every allocation-like call (malloc, calloc, realloc, strdup, vasprintf, duplocale, newlocale) "
             "of the operation is failed in turn (bound 1), then every pair k1<k2 (bound 2); non-trivial = distinct (workload, failed index)",
        bound=dict(quick="all single faults; all pairs for workloads with <= 45 allocations; includes 96 generated buffer-boundary parse workloads, 300-byte-key pointer/patch workloads, a 9 KB document", thorough="all single faults; all pairs for every workload"),
        states_stat="cases", transitions_stat="calls",
        technique="exhaustive enumeration of allocation-failure choice points (all singles, all pairs) over a workload corpus on the real code (ASan build), normal-or-clean-failure oracle with allocation accounting",
        claim="for every workload and every failed allocation index (and pair) the operation returned its fault-free result or failed through its documented channel, objects the caller "
              "owns dumped identically before and after and stayed releasable, and nothing remained allocated",
        note="after a failed in-place patch the document is required to be valid and releasable, not unchanged (the API makes no rollback promise); realloc always moves in the seam so stale pointers fault",
        assumptions=COMMON_ASSUMPTIONS,
    ),
    "C20": dict(
        level="fault_enumeration",
        runs=[dict(harness="c20", variant="san", shards=16)],
        deadline=dict(quick=240, thorough=1500),
        rule="write: documents whose serialization has 2, 9, 12, 40, 4095, 4096, 4097 and 9000 bytes plus a small tree x 3 flag sets x {to_fd, to_file_ext}; read: the same texts plus a nested, "
             "an invalid, a bare-number and an empty text x {from_fd, from_fd_ex(3), from_fd_ex(32), from_file}; every read()/write() is a choice point: for texts <= 12 bytes every "
             "transfer size 1..n and three errno values (EIO, EINTR, ENOSPC) at every call (all compositions), for larger ones sizes {all,1,2,n/2,n-1} and the three errors with a bounded number of deviations; "
             "open() failure, NULL object; non-trivial = distinct (operation, document, variant)",
        bound=dict(quick="<= 2 deviations on large documents (4095..70000 bytes)", thorough="<= 4 deviations on large documents (3 on 12288/20000 bytes, 2 on 70000 bytes)"),
        states_stat="cases", transitions_stat="schedules",
        technique="exhaustive enumeration of per-call transfer sizes and injected errors (choice points at read/write/open) on the real file I/O helpers (ASan build)",
        claim="for every explored schedule the bytes accepted by write() concatenate to exactly the serialization (or the call reports failure with a message), and reading yields the same "
              "result as one parse call on the same bytes with the same depth limit; no descriptor or allocation is left behind",
        note="write() returning 0 for a non-zero request is outside the alphabet (not produced by POSIX for the documented descriptor kinds)",
        assumptions=COMMON_ASSUMPTIONS,
    ),
    "C16": dict(
        level="model_checking",
        runs=[dict(harness="c16", variant="fast", shards=16)],
        deadline=dict(quick=240, thorough=1200),
        rule="base documents: every value of nesting <= 1 with <= 2 children over leaves {0,12,-3,1.5,true,false,null,'s'} and names {a,b}, plus 12 nesting-2 / spaced documents; for each, every "
             "extension kind at every admissible position computed from the reference token list: /*x*/ and //x in every gap, single quotes on every string and every member name, a comma "
             "before every closing bracket of a non-empty container, all 2^n-1 case masks of every literal, control bytes at every position inside every string and name, one and two "
             "superfluous zeros before every number, e / e+ / E- / E after every number, 8 kinds of trailing bytes; each text in default, strict and strict|allow-trailing mode; "
             "non-trivial = distinct injected text",
        bound=dict(quick="control bytes {01,09,0a,0d,1f}", thorough="all control bytes 01..1f"),
        states_stat="cases", transitions_stat="calls",
        technique="exhaustive enumeration of (document, extension kind, position) on the real tokener in three modes, reference reader for positions and expected values",
        claim="every documented extension at every syntactically possible position of every base document is rejected by strict mode and accepted with the original value by default mode; "
              "strict|allow-trailing accepts trailing bytes and reports where the value ended",
        note="NaN/Infinity are not in the property's list of extensions and are not judged; 0x00 is end of input for the API and is excluded",
        assumptions=COMMON_ASSUMPTIONS,
    ),
    "C14": dict(
        level="model_checking",
        runs=[dict(harness="c14", variant="fast", shards=16,
                   env={"LOCPATH": os.path.join(os.path.dirname(os.path.dirname(os.path.abspath(__file__))), "build", "locale")})],
        deadline=dict(quick=240, thorough=1200),
        rule="locale installations {global C, global comma, global C + thread comma, global comma + thread C, global comma + thread comma, global C + thread C} x "
             "(every RFC number spelling over {-019.eE+} up to the length bound that contains a fraction or exponent, bare / in an array / as a member value, plus special texts) "
             "and x (doubles m*10^e and binade samples serialized under PLAIN, NOZERO, PRETTY|SPACED), compared with the C-locale result; around every parse_ex/serialize call the thread "
             "locale handle, the global LC_NUMERIC name, printf's decimal separator and the number of live locale objects are compared; one text per parser outcome class x 8 flag sets "
             "x {with NUL, without, invalid length} x {duplocale fails, newlocale fails}; non-trivial = distinct input text",
        bound=dict(quick="number spellings <= 5 bytes", thorough="number spellings <= 7 bytes, denser double family"),
        states_stat="cases", transitions_stat="calls",
        technique="exhaustive enumeration of locale installations x number texts x parser outcome classes on the real code, differential oracle against the C-locale run plus locale-state probes",
        claim="under every locale installation every enumerated text parses to the same bits and every double serializes to the same bytes as in the C locale, and every return path of the "
              "parser (success, continue, each error kind, size error, failed locale-object creation) leaves the thread locale, the global locale and the locale-object count unchanged",
        note="the comma-decimal locale is synthesized offline from C.utf8 by bin/setup (decimal_point patched); if it cannot be loaded the run says so and is marked not exhaustive",
        assumptions=COMMON_ASSUMPTIONS + ["glibc locale file layout (decimal_point at LC_NUMERIC offsets 0x20/0x24) as found in this image"],
    ),
    "C18": dict(
        level="model_checking",
        runs=[dict(harness="c18", variant="thr", shards=18, tag="explore", build=dict(extra_sources=["mc/sched.c"], extra_cflags=["-DC18_OWN_SCHED"])),
              dict(harness="c18", variant="tsan", shards=18, tag="tsan-free-run")],
        deadline=dict(quick=400, thorough=3000),
        rule="ENABLE_THREADING build; 18 harness configurations: (1) threads borrow main's reference (get;put / get;get;put;put), (2) one reference handed to each thread, main releases its own "
             "without joining, (3) the same on an object owning a child with its own callback, (4) N threads racing on first use of the key hash (seed source returns -1 once, then distinct values), "
             "(5) threads on disjoint trees; every interleaving of the 2-3 real threads at shared-memory-access granularity with at most p preemptions (stateless DFS with prefix replay, one process "
             "per execution); oracle per schedule: destroyed exactly once, 'freed' reported exactly once, no access inside a freed block, equal hashes in all threads at all times, plus a "
             "vector-clock happens-before race monitor; then the same bodies free-running under the real ThreadSanitizer runtime; non-trivial = distinct schedule with >= 1 preemption",
        bound=dict(quick="2 threads: 2 preemptions; 3 threads: 1 preemption; 60 free runs per configuration", thorough="2 threads: 5 preemptions (4 for the child variant); 3 threads: 3-4 preemptions; 300 free runs per configuration"),
        states_stat="schedules", transitions_stat="scheduling_points",
        technique="stateless model checking of the real threaded code: preemption-bounded exhaustive schedule exploration over tsan-pass-instrumented accesses with own scheduler and HB race monitor; real TSan free run as cross-check",
        claim="every schedule within the preemption bound was executed on the real objects: no lost reference-count update, exactly one destruction after the last release, a single published hash "
              "seed, no data race by the C11 happens-before definition; the free-running ThreadSanitizer pass reports nothing",
        note="sequentially consistent interleavings only (the __sync builtins are full barriers); library built with -DNDEBUG like the shipped configuration, so assert() reads of the counter are not part of the build",
        assumptions=COMMON_ASSUMPTIONS + ["x86-64 memory model not explored beyond sequential consistency"],
    ),
}

# Secondary runs "stale errno": the same enumeration (at quick-tier sizes in both tiers) with errno
# pre-loaded with a value left over from some earlier, unrelated call (ERANGE = 34, ENOMEM = 12) before
# every library call under test.  Results must not depend on it (errno is per-thread state that
# persists across calls; a library function may only act on an errno value it has provoked itself).
for _pid in ("C01", "C02", "C03", "C10", "C12", "C13", "C14", "C16", "C20"):
    _base = PROPS[_pid]["runs"][0]
    PROPS[_pid]["rule"] = PROPS[_pid]["rule"] + "; two secondary runs repeat the enumeration (at quick-tier sizes) with errno pre-loaded with a stale ERANGE resp. ENOMEM before every library call under test - no result may depend on it"
    for _val, _tag in ((34, "stale-erange"), (12, "stale-enomem")):
        _r = dict(_base)
        _r["args"] = list(_base.get("args", [])) + ["errno_pre=%d" % _val, "size=quick"]
        _r["tag"] = _tag
        PROPS[_pid]["runs"] = PROPS[_pid]["runs"] + [_r]

# Additions made after the seeded rounds 4-7 (DESIGN section 7 b4-b8), appended to the rule texts
_EXTRA = {
 "C01": "; texts that are well-formed UTF-8 are also parsed with JSON_TOKENER_VALIDATE_UTF8 (same value); json_tokener_parse and json_tokener_parse_verbose are compared with parse_ex on every default-mode text; every text also with JSON_TOKENER_ALLOW_TRAILING_CHARS added to its mode (same status, same value)",
 "C02": "; plus custom double formats (10 formats x 24 values x global / per thread / per node), literals and empty containers, 19 nodes brought to their value by setters or carrying user data, and json_object_get_string on every non-string tree",
 "C03": "; a call with length 0 in every explored parser state; NUL at every position of 14 small documents; scanners entered below the top level; documents with U+FEFF and other multi-byte characters; 14 documents under depth limits 1..3; locale objects released and the thread's locale restored after every text",
 "C04": "; a call with length 0 in every explored state; NUL at every position of 14 small documents (comments, nesting); length -1 against the explicit length, negative lengths refused untouched; json_tokener_parse / parse_verbose status and value against parse_ex; after every distinct success state the probes run WITHOUT a reset (a parser that returned a value is ready for the next); locale objects released and the thread's locale restored after every text, the refused lengths included",
 "C05": "; at the judged step every transfer operation is first attempted with its 1st and 2nd allocation failing (a failure changes nothing); array capacity is part of the merge key; scripts: 255..200000 references, 1000-child containers, and 8 node kinds x 3 ways of installing user data x (alone / in a container) under every value setter, serialization and a default deep copy (callback only at the last release)",
 "C06": "; every lookup entry point (get, get_ex with and without result, lookup_ex, lookup_entry, lookup_entry_w_hash) must agree; deletion of the current member also through json_c_visit; scale script: 1100 keys with churn under both hash functions, and with the global hash switched while the object is alive",
 "C07": "; 'put the element already there'; indices that only the allocator refuses (SIZE_MAX/8-1, 2^40+5), continuing from the post-refusal state; scale scripts to 1025 elements; the array_list API used directly with a counting release callback: every script of <= 5 (6) operations against a list model",
 "C08": "; every cleanly failed operation is retried with memory available and compared with the fault-free run; add_ex with constant keys across a table growth; replace-last-element of shrunk and parsed arrays",
 "C09": "; a brand-new owning source emptied member by member and destroyed before the copy is read again; removal mutations; nodes with retained text through new_double_s and through the public json_object_userdata_to_json_string idiom; custom serializer refused cleanly",
 "C10": "; every string also read from a node in separately allocated storage; json_parse_int64/uint64/double called directly; errno after get_double; leading whitespace of every kind strtoll accepts (\\v, \\f, \\r too) before signs",
 "C11": "; serialization is an operation of the alphabet (the node keeps its print buffer); a 4th pattern shares a prefix ending in NUL with pattern 1; a length only the allocator refuses (2^29); every state serialized under 5 flag sets (PLAIN, COLOR, PRETTY|COLOR, NOSLASHESCAPE, SPACED|PRETTY_TAB)",
 "C12": "; pointers with '%' through getf/setf with the '%' doubled and with the last token as a %s argument; 100..300-byte names, 1024-byte paths, indices 2^32+k",
 "C13": "; every refusal also with patch_error == NULL; a NULL patch document; a 12-element array target and indices 2^32+k",
 "C14": "; six custom double formats (padded, signed, prefixed; per thread, global, per node) serialized under every locale installation",
 "C15": "; the 'reset parser behaves like a new one' probes run in every explored state at every small limit D; large limits 100..10000 with nestings D-2..D+1; locale objects released and the thread's locale restored after every text",
 "C16": "; each mode also combined with JSON_TOKENER_VALIDATE_UTF8 (6 modes); every case on four tokener histories (fresh; reset; abandoned partial text + reset; failed text + reset); 12 kinds of trailing bytes incl. comments",
 "C17": "; the reserved second argument of json_c_visit rotates over {0, JSON_C_VISIT_SECOND, 1, -1}; chains of 31..1000 containers (built through the API and parsed) with CONTINUE everywhere and STOP at two positions",
 "C18": "; four more configurations: the global string hash switched away and back after first use; a different per-thread double format in each thread on disjoint trees; the random source answering the refused seed value three times in a row; the empty key hashed first, then another key, then the empty key again",
 "C19": "; start states with 0..65530 bytes already written (growth capped at 2.5x / 4x the start fill); the 5- and 129-byte formatted prints carry a NUL byte (%c with 0)",
 "C20": "; documents at the exact depth limit and limits 0, 1, 4, 40; flag sets with COLOR / NOZERO / NOSLASHESCAPE; json_object_to_file; multi-buffer documents to 70000 bytes; after every failure a message different from one planted before the call; open descriptors counted before the table is reset",
}
for _pid, _t in _EXTRA.items():
    PROPS[_pid]["rule"] = PROPS[_pid]["rule"] + _t

NOT_APPLICABLE = {}
