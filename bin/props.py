"""Registry: which harnesses decide which property, with what bounds."""
import os

COMMON_ASSUMPTIONS = [
    "one platform configuration (glibc, x86-64, uselocale/duplocale, arc4random, default cmake options)",
    "the reference models are correct (cross-validated by bin/selftest against Python)",
    "behaviour outside the stated alphabets and bounds is not covered",
]

PROPS = {
    "C01": dict(
        level="model_checking",
        runs=[dict(harness="c01", variant="fast", shards=16)],
        deadline=dict(quick=240, thorough=1500),
        rule="every member of complete sub-languages of RFC 8259 (all \\uXXXX units x hex case, all supplementary "
             "scalar values as pairs, 2048 surrogates x 16 followers, all number strings over {-019.eE+} up to the length "
             "bound that match the grammar, boundary lattice, tree family T(2,2) with whitespace deviations, T(1,3), "
             "nesting chains to 31, raw UTF-8 boundaries) x {default,strict} x {NUL-terminated, exact length + guard page}; "
             "non-trivial = distinct text whose parsed dump is longer than a scalar tag",
        bound=dict(quick="number strings <= 6 bytes; supplementary pairs at bit-field edges; ws deviations on T(1,2) only",
                   thorough="number strings <= 8 bytes; all 1,048,576 supplementary pairs; ws deviations on all of T(2,2)"),
        states_stat="cases", transitions_stat="calls",
        technique="exhaustive enumeration of bounded input languages executed on the real parser, compared with a reference reader",
        claim="every text of the enumerated sub-languages was parsed by the real code in both modes and both delivery forms "
              "and its typed dump compared with an independent RFC 8259 reader; a complete family leaves no position-dependent "
              "escape/number/structure defect inside the bound unobserved",
        note="reference reader + value model (mc/vmodel.c) trusted; glibc strtod as correctly rounded conversion; texts longer/deeper than the families not covered",
        assumptions=COMMON_ASSUMPTIONS + ["strtod of glibc in the C locale is the correctly rounded conversion (pinned by selftest against Python float)"],
    ),
    "C02": dict(
        level="model_checking",
        runs=[dict(harness="c02", variant="fast", shards=16)],
        deadline=dict(quick=240, thorough=1500),
        rule="trees built through the API (all byte strings of length 0..2 incl. NUL and invalid UTF-8, escape-relevant bytes at every "
             "position of runs of length 3..40 crossing the 32-byte buffer growth, integer boundary lattice in both signednesses, "
             "doubles m*10^e / every binade boundary and neighbours / exponent shapes / retained text, tree family T(2,2,L,{a,'',/}), "
             "nesting chains to 40) x all 64 flag sets; non-trivial = distinct tree whose text is longer than 6 bytes",
        bound=dict(quick="2-byte strings with a special byte in either slot; m<=99, e step 7; T(2,2) over 4 leaves",
                   thorough="all 65,536 2-byte strings; m<=999, every e in -330..310; T(2,2) over 6 leaves"),
        states_stat="cases", transitions_stat="calls",
        technique="exhaustive enumeration of API-built trees x all 64 flag sets on the real serializer, judged by a reference reader and round trip",
        claim="for every enumerated tree and every one of the 64 flag combinations the real serializer's text was read by an independent "
              "strict RFC 8259 reader and compared with the tree, compared across flag sets modulo whitespace/colour, re-parsed and re-serialized by json-c",
        note="reference reader trusted; doubles limited to the enumerated decimal/binade families (2^64 bit patterns are not enumerable); custom double formats out of scope",
        assumptions=COMMON_ASSUMPTIONS,
    ),
}

NOT_APPLICABLE = {}
