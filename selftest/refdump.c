/* selftest helper: exposes the C reference models (reference reader, RFC 6901 evaluator of
 * c12.c, RFC 6902 interpreter of c13.c) on stdin/stdout so that selftest/run can compare them
 * with independent Python transcriptions.  Built twice: -DWHICH=12 and -DWHICH=13. */
#define main harness_main
#if WHICH == 12
#include "../harness/c12.c"
#else
#include "../harness/c13.c"
#endif
#undef main
#include <stdio.h>

static size_t unhex(const char *h, unsigned char *out)
{
	size_t n = 0;
	while (h[0] && h[1] && h[0] != '\n' && h[0] != ' ')
	{
		unsigned v;
		sscanf(h, "%2x", &v);
		out[n++] = (unsigned char)v;
		h += 2;
	}
	out[n] = 0;
	return n;
}
int main(void)
{
	static char line[1 << 16];
	static unsigned char a[1 << 15], b[1 << 15];
	sb_t o = {0};
	while (fgets(line, sizeof line, stdin))
	{
		char cmd = line[0];
		char *f1 = line + 2;
		char *f2 = strchr(f1, ' ');
		if (f2)
			*f2++ = 0;
		va_reset();
		sb_reset(&o);
		if (cmd == 'R')
		{
			/* R <hex text> <strict 0/1> : reference reader */
			size_t n = unhex(f1, a);
			struct rr_opts ro = {.strict_range = f2 && f2[0] == '1'};
			struct rr_result rr;
			rr_parse(a, n, &ro, &rr);
			if (rr.status)
				printf("ERR%d\n", rr.status);
			else
			{
				v_dump(rr.value, &o, 0);
				printf("OK %s\n", sb_str(&o));
			}
		}
#if WHICH == 12
		else if (cmd == 'G' || cmd == 'S')
		{
			/* G <hex doc> <hex ptr> : RFC 6901 lookup;  S ... : set of the integer 7 */
			size_t n = unhex(f1, a);
			unhex(f2 ? f2 : "", b);
			struct rr_result rr;
			rr_parse(a, n, NULL, &rr);
			V *node = NULL;
			struct rpath rp;
			if (cmd == 'G')
			{
				int st = ref_eval(rr.value, (const char *)b, strlen((const char *)b), &node, &rp);
				if (st == RP_OK)
				{
					v_dump(node, &o, 0);
					printf("OK %s\n", sb_str(&o));
				}
				else
					printf("%s\n", st == RP_FAIL ? "FAIL" : "UNSPEC");
			}
			else
			{
				V *out = NULL;
				int st = ref_set(rr.value, (const char *)b, v_int(0, 7), &out);
				if (st == RP_OK)
				{
					v_dump(out, &o, 0);
					printf("OK %s\n", sb_str(&o));
				}
				else
					printf("%s\n", st == RP_FAIL ? "FAIL" : "UNSPEC");
			}
		}
#else
		else if (cmd == 'A')
		{
			/* A <hex doc> <hex patch> : RFC 6902 application */
			size_t n = unhex(f1, a);
			size_t m = unhex(f2 ? f2 : "", b);
			struct rr_result r1, r2;
			rr_parse(a, n, NULL, &r1);
			rr_parse(b, m, NULL, &r2);
			V *out = NULL;
			size_t idx = 0;
			int st = ref_apply(r1.value, r2.value, &out, &idx);
			if (st == 0)
			{
				v_dump(out, &o, 0);
				printf("OK %s\n", sb_str(&o));
			}
			else if (st == -1)
				printf("FAIL %zu\n", idx);
			else
				printf("UNSPEC\n");
		}
#endif
		else
			printf("?\n");
	}
	return 0;
}
